#!/usr/bin/env python3
"""Common machinery for all property checks (DESIGN §1.3, §1.4).

A property module (tools/props/cXX.py) provides:
  ID, LEVEL, THEOREMS (list of fully-qualified Lean theorem names to audit),
  configs(tier) -> list of (variant, mask, flavour)
  gen(ctx, tier, rng) -> list of op lines  (or gen_for(ctx, tier, rng, cfg))
  optional: predicate(ctx, line, impl_out, model_out) -> (fails: bool, why: str)
  optional: extra(ctx) -> custom stages (returns list of violation dicts)
"""
import fcntl, hashlib, json, os, random, re, shutil, subprocess, sys, tempfile, time

VERIF = os.path.dirname(os.path.dirname(os.path.abspath(__file__)))
LEAN = os.environ.get("VERIF_LEAN", os.path.join(VERIF, "lean"))     # overridable so proof work can be validated in a scratch copy
OUT = os.environ.get("VERIF_OUT", VERIF)                               # where evidence/ and replays/ are written
HARNESS = os.path.join(VERIF, "harness")
REPO = os.environ.get("VERIF_REPO", "/repo")
sys.path.insert(0, HARNESS)
import build_sodium  # noqa: E402

ALLOWED_AXIOMS = {"propext", "Classical.choice", "Quot.sound"}
FORBIDDEN = re.compile(r"\bsorry\b|\badmit\b|^axiom\s|native_decide|bv_decide|implemented_by|\bunsafe\s|maxHeartbeats\s+0")

MASK_CHAIN = ["", "avx512f", "avx512f,avx2", "avx512f,avx2,avx1", "avx512f,avx2,avx1,sse41",
              "avx512f,avx2,avx1,sse41,ssse3", "avx512f,avx2,avx1,sse41,ssse3,pni",
              "avx512f,avx2,avx1,sse41,ssse3,pni,sse2,pclmul,aesni,rdrand"]
ALL_OFF = MASK_CHAIN[-1]
VARIANTS = ["native", "noasm", "noti", "portable"]

TRUSTED_BASE = [
    "Lean 4.33.0 kernel (type-checks every theorem; axioms per theorem re-audited each run: only propext, Classical.choice, Quot.sound allowed)",
    "Spec/*.lean is a faithful transcription of the public specification (RFC/FIPS); guarded by known-answer tests, not proved",
    "Tie A: C harness (harness/*.c), this Python runner, gcc, the Lean compiler/runtime executing the model driver; reach = the generated inputs listed under coverage",
    "Modelled, not verified: compiler code generation, hand-written assembly, OS/kernel behaviour, hardware",
]


class BrokenCheck(Exception):
    pass


class Ctx:
    def __init__(self, prop, tier, seed):
        self.prop = prop
        self.tier = tier
        self.seed = seed
        self.t0 = time.time()
        base = os.environ.get("TMPDIR", "/var/tmp")
        self.scratch = tempfile.mkdtemp(prefix="verif-%s-" % prop, dir=base)
        self.libs = {}
        self.exes = {}
        self.violations = []
        self.known = []
        self.notes = []
        self.stats = {}
        self.samples = []
        self.evaluations = 0
        self.distinct = set()
        self.obligations = []
        self.discharged = 0
        self.configs_run = []

    def cleanup(self):
        shutil.rmtree(self.scratch, ignore_errors=True)

    def log(self, *a):
        print("[%s %6.1fs]" % (self.prop, time.time() - self.t0), *a, flush=True)


# ---------------------------------------------------------------- Lean side

def lean_build(ctx, targets=()):
    """lake build under a file lock. Returns (ok, output)."""
    os.makedirs(os.path.join(LEAN, ".lake"), exist_ok=True)
    lock = open(os.path.join(LEAN, ".lake", "verif.lock"), "w")
    fcntl.flock(lock, fcntl.LOCK_EX)
    try:
        p = subprocess.run(["lake", "build"] + list(targets), cwd=LEAN, capture_output=True, text=True)
        return p.returncode == 0, p.stdout + p.stderr
    finally:
        fcntl.flock(lock, fcntl.LOCK_UN)
        lock.close()


def tie_b_tables(ctx, theorems):
    """Tie B for constant tables: regenerate lean/Generated/Tables.lean from /repo's current source and let the kernel decide
    `generated = model` (lean/Generated/TableObligations.lean). Returns the list of obligations that no longer check."""
    import c2lean_tables
    failed = []
    try:
        c2lean_tables.emit(os.path.join(LEAN, "Generated", "Tables.lean"))
    except Exception as e:
        return [("translator", "tools/c2lean_tables.py could not extract a table from the current source: %s" % e)]
    import fcntl
    with open(os.path.join(LEAN, ".lake-lock"), "w") as lk:
        fcntl.flock(lk, fcntl.LOCK_EX)
        p = subprocess.run(["lake", "build", "+Generated.TableObligations"], cwd=LEAN, capture_output=True, text=True)
    if p.returncode != 0:
        log = p.stdout + p.stderr
        src = open(os.path.join(LEAN, "Generated", "TableObligations.lean")).read().split("\n")
        for m in re.finditer(r"TableObligations\.lean:(\d+):\d+:", log):
            ln = int(m.group(1))
            name = None
            for k in range(ln - 1, -1, -1):
                mm = re.match(r"theorem (\w+)", src[k]) if k < len(src) else None
                if mm:
                    name = mm.group(1); break
            if name and name not in [f[0] for f in failed]:
                failed.append((name, log[max(0, m.start() - 100):m.start() + 600]))
        if not failed:
            failed.append(("Generated.TableObligations", log[-1500:]))
    for t in theorems:
        ctx.obligations.append({"theorem": "Sodium.Generated." + t, "axioms": ["(decide over the table regenerated from the source)"]})
    ctx.discharged = len(ctx.obligations) - len([f for f in failed if f[0] in theorems])
    return [f for f in failed if f[0] in theorems or f[0] in ("translator", "Generated.TableObligations")]


def tie_b_sc(ctx):
    """Tie B for the scalar limb code: tools/c2lean_sc.py re-transcribes sc25519_reduce / sc25519_mul / sc25519_muladd of /repo's CURRENT
    ed25519_ref10.c into the Lean model (Model/ScReduce.lean) and its interval-bound / refinement lemmas (Proofs/ScReduceGen.lean). If the
    regenerated text equals the committed text, the theorems of Properties/C07Reduce.lean (already re-checked by this run's lake build) are
    about the code as it is now. Otherwise the regenerated files are put in place, the theorems are re-checked against them, and the files
    are restored. Returns [] or [(name, log)]."""
    import fcntl
    gen = os.path.join(ctx.scratch, "sc-gen")
    os.makedirs(os.path.join(gen, "SodiumModel", "Model"), exist_ok=True)
    os.makedirs(os.path.join(gen, "SodiumModel", "Proofs"), exist_ok=True)
    e = dict(os.environ); e["VERIF_REPO"] = REPO
    p = subprocess.run([sys.executable, os.path.join(VERIF, "tools", "c2lean_sc.py"), gen], capture_output=True, text=True, env=e)
    names = ["sc25519_reduce_spec", "sc25519_mul_spec", "sc25519_muladd_spec", "no_overflow", "mul_no_overflow"]
    for t in names:
        ctx.obligations.append({"theorem": "Sodium.C07Reduce.%s [model regenerated from the source]" % t, "axioms": ["propext", "Classical.choice", "Quot.sound"]})
    if p.returncode != 0:
        ctx.discharged = len(ctx.obligations) - len(names)
        return [("translator", "tools/c2lean_sc.py no longer recognises the statement structure of the scalar limb code (the model cannot be regenerated):\n" + (p.stderr or p.stdout)[-1500:])]
    pairs = [(os.path.join(gen, "SodiumModel", "Model", "ScReduce.lean"), os.path.join(LEAN, "SodiumModel", "Model", "ScReduce.lean")),
             (os.path.join(gen, "SodiumModel", "Proofs", "ScReduceGen.lean"), os.path.join(LEAN, "SodiumModel", "Proofs", "ScReduceGen.lean"))]
    if all(open(a).read() == open(b).read() for a, b in pairs):
        ctx.discharged = len(ctx.obligations)
        return []
    with open(os.path.join(LEAN, ".lake-lock"), "w") as lk:
        fcntl.flock(lk, fcntl.LOCK_EX)
        saved = [(b, open(b).read()) for _, b in pairs]
        try:
            for a, b in pairs:
                shutil.copy(a, b)
            q = subprocess.run(["lake", "build", "+SodiumModel.Properties.C07Reduce"], cwd=LEAN, capture_output=True, text=True, timeout=3600)
        finally:
            for b, txt in saved:
                open(b, "w").write(txt)
            subprocess.run(["lake", "build", "+SodiumModel.Properties.C07Reduce"], cwd=LEAN, capture_output=True, text=True)   # back to the committed state
    if q.returncode == 0:
        ctx.discharged = len(ctx.obligations)
        ctx.stats["sc_model_regenerated_differs_but_proved"] = True
        return []
    log = q.stdout + q.stderr
    first = re.search(r"error: [^\n]*\.lean:\d+:\d+:[^\n]*(\n[^\n]*){0,6}", log)
    ctx.discharged = len(ctx.obligations) - len(names)
    return [("Sodium.C07Reduce (scalar limb code)", "the model regenerated from the current source no longer satisfies the proofs:\n" + (first.group(0) if first else log[-1500:]))]


def tie_b_regen(ctx, label, cmd, target_rel, module, theorems, pinned_re=None):
    """Generic Tie B for a GENERATED model file: `cmd(outpath)` regenerates it from /repo's current source into a scratch file. Identical text:
    the theorems re-checked by this run's lake build are about the code as it is. Different text: lines matching `pinned_re` (source
    fingerprints of hand-transcribed neighbours) that differ are reported (the hand transcription no longer matches); for the rest the
    regenerated file is put in place, `module` (the theorems) is re-built against it and the committed file restored. -> [(name, log)]"""
    import fcntl
    gen = os.path.join(ctx.scratch, "regen-" + os.path.basename(target_rel))
    target = os.path.join(LEAN, target_rel)
    try:
        p = cmd(gen)
    except Exception as e:  # generator crashed
        return [("translator", "%s: generator failed on the current source: %s" % (label, e))]
    for t in theorems:
        ctx.obligations.append({"theorem": t + " [model regenerated from the source: %s]" % label, "axioms": ["propext", "Classical.choice", "Quot.sound"]})
    if p is not None and p.returncode != 0:
        ctx.discharged = len(ctx.obligations) - len(theorems)
        return [("translator", "%s: the generator no longer recognises the source:\n%s" % (label, (p.stdout + p.stderr)[-1500:]))]
    new, old = open(gen).read(), open(target).read()
    if new == old:
        ctx.discharged = len(ctx.obligations)
        return []
    out = []
    if pinned_re is not None:
        po = dict(re.findall(pinned_re, old)); pn = dict(re.findall(pinned_re, new))
        ch = sorted(k for k in set(po) | set(pn) if po.get(k) != pn.get(k))
        if ch:
            out.append(("transcription of " + ", ".join(ch), "%s: the text of these hand-transcribed source files differs from the text the Lean model was written from "
                        "(pinned %s, now %s): the theorems no longer cover the code that exists" % (label, [po.get(k) for k in ch], [pn.get(k) for k in ch])))
        strip = lambda s: re.sub(pinned_re, "", s)
        if strip(new) == strip(old):
            ctx.discharged = len(ctx.obligations) - len(theorems)
            return out
    with open(os.path.join(LEAN, ".lake-lock"), "w") as lk:
        fcntl.flock(lk, fcntl.LOCK_EX)
        try:
            shutil.copy(gen, target)
            q = subprocess.run(["lake", "build", "+" + module], cwd=LEAN, capture_output=True, text=True, timeout=3600)
        finally:
            open(target, "w").write(old)
            subprocess.run(["lake", "build", "+" + module], cwd=LEAN, capture_output=True, text=True)
    if q.returncode == 0 and not out:
        ctx.discharged = len(ctx.obligations)
        ctx.stats["regenerated_differs_but_proved:" + label] = True
        return []
    if q.returncode != 0:
        log = q.stdout + q.stderr
        first = re.search(r"error: [^\n]*\.lean:\d+:\d+:[^\n]*(\n[^\n]*){0,6}", log)
        out.append((module, "%s: the model regenerated from the current source no longer satisfies the proofs:\n%s" % (label, first.group(0) if first else log[-1500:])))
    ctx.discharged = len(ctx.obligations) - len(theorems)
    return out


def tie_b_regen_multi(ctx, label, cmd, rels, module, theorems):
    """as tie_b_regen, for a generator that writes several files (relative paths `rels`) under an output directory"""
    import fcntl
    gen = os.path.join(ctx.scratch, "regen-" + re.sub(r"\W+", "_", label)[:30])
    os.makedirs(gen, exist_ok=True)
    try:
        p = cmd(gen)
    except Exception as e:
        return [("translator", "%s: generator failed on the current source: %s" % (label, e))]
    for t in theorems:
        ctx.obligations.append({"theorem": t + " [model regenerated from the source: %s]" % label, "axioms": ["propext", "Classical.choice", "Quot.sound"]})
    if p.returncode != 0:
        ctx.discharged = len(ctx.obligations) - len(theorems)
        return [("translator", "%s: the generator no longer recognises the statement structure of the source (the model cannot be regenerated):\n%s" % (label, (p.stdout + p.stderr)[-1500:]))]
    pairs = [(os.path.join(gen, r), os.path.join(LEAN, r)) for r in rels]
    if all(open(a).read() == open(b).read() for a, b in pairs):
        ctx.discharged = len(ctx.obligations)
        return []
    with open(os.path.join(LEAN, ".lake-lock"), "w") as lk:
        fcntl.flock(lk, fcntl.LOCK_EX)
        saved = [(b, open(b).read()) for _, b in pairs]
        try:
            for a, b in pairs:
                shutil.copy(a, b)
            q = subprocess.run(["lake", "build", "+" + module], cwd=LEAN, capture_output=True, text=True, timeout=3600)
        finally:
            for b, txt in saved:
                open(b, "w").write(txt)
            subprocess.run(["lake", "build", "+" + module], cwd=LEAN, capture_output=True, text=True)
    if q.returncode == 0:
        ctx.discharged = len(ctx.obligations)
        ctx.stats["regenerated_differs_but_proved:" + label] = True
        return []
    log = q.stdout + q.stderr
    first = re.search(r"error: [^\n]*\.lean:\d+:\d+:[^\n]*(\n[^\n]*){0,6}", log)
    ctx.discharged = len(ctx.obligations) - len(theorems)
    return [(module, "%s: the model regenerated from the current source no longer satisfies the proofs:\n%s" % (label, first.group(0) if first else log[-1500:]))]


def simd_check(ctx, name, cfile, cflags, leanfile, via_stdin):
    """Validation of the TRUSTED intrinsic semantics of a SIMD model against this CPU: a C program prints each intrinsic's output on pseudo-random
    inputs, the Lean definitions recompute every line. A mismatch means the model's reading of the Intel SDM is wrong: BROKEN-CHECK (machinery)."""
    d = os.path.join(LEAN, "simdcheck", name)
    exe = os.path.join(ctx.scratch, "simd_" + name)
    p = subprocess.run(["gcc", "-O1"] + cflags + ["-o", exe, os.path.join(d, cfile)], capture_output=True, text=True)
    if p.returncode != 0:
        raise BrokenCheck("simdcheck %s: gcc failed: %s" % (name, p.stderr[-500:]))
    vec = subprocess.run([exe], capture_output=True, text=True).stdout
    vf = os.path.join(ctx.scratch, "simd_%s.txt" % name)
    open(vf, "w").write(vec)
    if via_stdin:
        q = subprocess.run(["lake", "env", "lean", "--run", os.path.join(d, leanfile)], cwd=LEAN, input=vec, capture_output=True, text=True)
    else:
        q = subprocess.run(["lake", "env", "lean", "--run", os.path.join(d, leanfile), vf], cwd=LEAN, capture_output=True, text=True)
    tail = (q.stdout + q.stderr).strip().split("\n")[-1]
    ctx.stats["intrinsic_semantics_vs_cpu:" + name] = tail
    if q.returncode != 0 or not re.search(r"\b0 mismatches", tail):
        raise BrokenCheck("simdcheck %s: the Lean intrinsic semantics disagree with the CPU: %s" % (name, (q.stdout + q.stderr)[-800:]))
    ctx.log("intrinsic semantics (%s) validated against this CPU: %s" % (name, tail))


def simd_check_script(ctx, name):
    """as simd_check, for a validation that ships its own driver script lean/simdcheck/<name>/run.sh (last output line must say `0 mismatches`)"""
    e = dict(os.environ); e["LIBSODIUM_SRC"] = os.path.join(REPO, "src", "libsodium"); e["TMPDIR"] = ctx.scratch
    q = subprocess.run(["sh", os.path.join(LEAN, "simdcheck", name, "run.sh")], cwd=LEAN, capture_output=True, text=True, env=e)
    tail = (q.stdout + q.stderr).strip().split("\n")[-1]
    ctx.stats["intrinsic_semantics_vs_cpu:" + name] = tail
    if q.returncode != 0 or not re.search(r"\b0 mismatches", tail):
        raise BrokenCheck("simdcheck %s: the Lean intrinsic semantics disagree with the CPU (or the macro text copied into the validation program is no longer the headers' text): %s" % (name, (q.stdout + q.stderr)[-800:]))
    ctx.log("intrinsic semantics (%s) validated against this CPU: %s" % (name, tail))


def strip_comments(src):
    # remove /- ... -/ (nested not handled beyond one level, fine for our sources) and -- comments
    out = []
    depth = 0
    i = 0
    n = len(src)
    while i < n:
        if src.startswith("/-", i):
            depth += 1
            i += 2
            continue
        if depth > 0 and src.startswith("-/", i):
            depth -= 1
            i += 2
            continue
        if depth > 0:
            if src[i] == "\n":
                out.append("\n")
            i += 1
            continue
        if src.startswith("--", i):
            while i < n and src[i] != "\n":
                i += 1
            continue
        out.append(src[i])
        i += 1
    return "".join(out)


def grep_forbidden():
    hits = []
    for root, _, files in os.walk(LEAN):
        if ".lake" in root:
            continue
        for fn in files:
            if not fn.endswith(".lean"):
                continue
            p = os.path.join(root, fn)
            txt = strip_comments(open(p).read())
            for ln, line in enumerate(txt.split("\n"), 1):
                if FORBIDDEN.search(line):
                    hits.append("%s:%d: %s" % (os.path.relpath(p, LEAN), ln, line.strip()[:100]))
    return hits


def audit(ctx, theorems, imports):
    if MISSING_THEOREMS:
        raise BrokenCheck("property theorems listed for the audit are missing from the Properties files: %s" % MISSING_THEOREMS[:5])
    """#print axioms on every theorem; returns {name: [axioms]}. Raises BrokenCheck on any problem."""
    hits = grep_forbidden()
    if hits:
        raise BrokenCheck("forbidden token in Lean sources: " + "; ".join(hits[:5]))
    src = "".join("import %s\n" % m for m in imports)
    src += "".join("#print axioms %s\n" % t for t in theorems)
    f = os.path.join(ctx.scratch, "Audit_%s.lean" % ctx.prop)
    open(f, "w").write(src)
    p = subprocess.run(["lake", "env", "lean", f], cwd=LEAN, capture_output=True, text=True)
    out = p.stdout + p.stderr
    res = {}
    for m in re.finditer(r"'([^']+)' depends on axioms: \[([^\]]*)\]", out):
        res[m.group(1)] = [a.strip() for a in m.group(2).replace("\n", " ").split(",") if a.strip()]
    for m in re.finditer(r"'([^']+)' does not depend on any axioms", out):
        res[m.group(1)] = []
    missing = [t for t in theorems if t not in res]
    if p.returncode != 0 or missing:
        raise BrokenCheck("axiom audit failed (missing %s): %s" % (missing[:5], out[-1500:]))
    for t, ax in res.items():
        bad = [a for a in ax if a not in ALLOWED_AXIOMS]
        if bad:
            raise BrokenCheck("theorem %s depends on disallowed axioms %s" % (t, bad))
    return res


def driver_path():
    return os.path.join(LEAN, ".lake", "build", "bin", "sodium-model")


def run_model(ctx, lines, timeout=3600):
    inp = "\n".join(lines) + "\n"
    p = subprocess.run([driver_path()], input=inp, capture_output=True, text=True, timeout=timeout)
    if p.returncode != 0:
        raise BrokenCheck("model driver failed rc=%d: %s" % (p.returncode, p.stderr[-1000:]))
    out = p.stdout.split("\n")
    if out and out[-1] == "":
        out.pop()
    if len(out) != len(lines):
        raise BrokenCheck("model driver produced %d lines for %d ops" % (len(out), len(lines)))
    return out


def run_model_parallel(ctx, lines, nproc=14):
    """run_model split over processes (interleaved so that expensive ops are spread)"""
    from concurrent.futures import ThreadPoolExecutor
    if len(lines) < 4 * nproc:
        return run_model(ctx, lines)
    chunks = [lines[i::nproc] for i in range(nproc)]
    with ThreadPoolExecutor(max_workers=nproc) as ex:
        outs = list(ex.map(lambda c: run_model(ctx, c) if c else [], chunks))
    res = [None] * len(lines)
    for i, o in enumerate(outs):
        for j, v in enumerate(o):
            res[i + j * nproc] = v
    return res


class ModelSession:
    """interactive session with the model driver (for generators that need the model's answers,
    e.g. ciphertexts, to build the following operations)"""

    def __init__(self):
        self.p = subprocess.Popen([driver_path()], stdin=subprocess.PIPE, stdout=subprocess.PIPE, text=True, bufsize=1)
        self.lines = []
        self.outs = []

    def ask(self, line):
        self.p.stdin.write(line + "\n")
        self.p.stdin.flush()
        r = self.p.stdout.readline()
        if not r:
            raise BrokenCheck("model driver died on: " + line[:200])
        r = r.rstrip("\n")
        self.lines.append(line)
        self.outs.append(r)
        return r

    def close(self):
        try:
            self.p.stdin.close()
            self.p.wait(timeout=10)
        except Exception:
            self.p.kill()


# ---------------------------------------------------------------- C side

HX_SOURCES = None


def hx_sources():
    return sorted(os.path.join(HARNESS, f) for f in os.listdir(HARNESS)
                  if f.endswith(".c") and (f in ("hx.c", "wrap_sys.c") or f.startswith("ops_")))


WRAP_FLAGS = ["-Wl,--wrap=mmap,--wrap=munmap,--wrap=mprotect,--wrap=mlock,--wrap=munlock,--wrap=malloc,--wrap=calloc,--wrap=posix_memalign,--wrap=free",
              "-Wl,--wrap=getentropy,--wrap=gettimeofday,--wrap=getpid,--wrap=open"]   # second group: scripted entropy / clock / pid for C18 rngint (pass-through unless switched on)


def build_lib(ctx, variant, flavour="plain"):
    key = (variant, flavour)
    if key not in ctx.libs:
        out = os.path.join(ctx.scratch, "lib-%s-%s" % key)
        try:
            ctx.libs[key] = build_sodium.build(variant, out, flavour)
        except Exception as e:  # compile failure of /repo: the correspondence cannot be checked
            raise BrokenCheck("libsodium (%s/%s) does not compile: %s" % (variant, flavour, str(e)[-1500:]))
    return ctx.libs[key]


def build_hx(ctx, variant, flavour="plain", extra_sources=(), extra_flags=(), name=None, wrap=None):
    key = (variant, flavour, name)
    if key in ctx.exes:
        return ctx.exes[key]
    lib = build_lib(ctx, variant, flavour)
    exe = os.path.join(ctx.scratch, "hx-%s-%s-%s" % (variant, flavour, name or "std"))
    fl = build_sodium.FLAVOUR_FLAGS[flavour]
    srcs = list(extra_sources) if name else hx_sources()
    cmd = (["gcc", "-w"] + fl + build_sodium.include_flags(os.path.dirname(lib)) + ["-I" + HARNESS] +
           ["-DSODIUM_VERIF=1", "-DHX_VARIANT_" + variant.upper() + "=1"] + list(extra_flags) + srcs + [lib, "-lpthread"] + (WRAP_FLAGS if (wrap if wrap is not None else not name) else []) + ["-o", exe])
    p = subprocess.run(cmd, capture_output=True, text=True)
    if p.returncode != 0:
        raise BrokenCheck("harness does not compile against the current tree: " + p.stderr[-2000:])
    ctx.exes[key] = exe
    return exe


def run_impl(ctx, exe, lines, mask="", env=None, timeout=3600, allow_crash=False):
    """Runs the harness on the op lines. Returns (outputs, crashed_info)."""
    inp = "\n".join(lines) + "\n"
    e = dict(os.environ)
    e["SODIUM_VERIF_CPU_DISABLE"] = mask or ""
    e.setdefault("ASAN_OPTIONS", "detect_leaks=0:abort_on_error=0:allocator_may_return_null=1")
    e.setdefault("UBSAN_OPTIONS", "print_stacktrace=1:halt_on_error=1")
    if env:
        e.update(env)
    p = subprocess.run([exe], input=inp, capture_output=True, text=True, timeout=timeout, env=e, cwd=ctx.scratch)
    out = p.stdout.split("\n")
    if out and out[-1] == "":
        out.pop()
    crashed = None
    if p.returncode != 0 or len(out) != len(lines):
        crashed = {"rc": p.returncode, "lines_out": len(out), "stderr": p.stderr[-3000:]}
    return out, crashed


def bisect_crash(ctx, exe, lines, mask="", env=None):
    """Find a single op line on which the harness crashes (each op is independent unless the module is stateful)."""
    for i, ln in enumerate(lines):
        pass
    lo, hi = 0, len(lines)
    out, cr = run_impl(ctx, exe, lines, mask, env)
    idx = len(out)  # first line without output
    if idx < len(lines):
        o2, c2 = run_impl(ctx, exe, [lines[idx]], mask, env)
        if c2:
            return idx, c2
    return idx if idx < len(lines) else None, cr


# ---------------------------------------------------------------- reporting

def known_findings():
    p = os.path.join(VERIF, "known_findings.json")
    if not os.path.exists(p):
        return []
    return json.load(open(p)).get("findings", [])


def match_known(ctx, mod, prop, line, impl_out, model_out):
    """A recorded (not repaired) finding suppresses a mismatch only when the op matches its pattern AND the implementation
    behaves exactly as recorded: if the finding names an `as_is_op` prefix, the model driver is asked for the recorded
    (deviating) behaviour and the implementation must equal it — any other deviation on the same input is still a violation."""
    for f in known_findings():
        if f.get("status") != "known" or f.get("property") != prop:
            continue
        if not re.search(f["op_pattern"], line):
            continue
        if f.get("as_is_prefix"):
            try:
                rec = run_model(ctx, [f["as_is_prefix"] + line])[0]
            except BrokenCheck:
                continue
            if rec != impl_out:
                continue
        return f
    return None


def report(ctx, kind, detail, no_input=False):
    """Record a violation; writes the replay file and prints the VIOLATION line."""
    d = os.path.join(OUT, "replays", ctx.prop)
    os.makedirs(d, exist_ok=True)
    n = len(ctx.violations)
    path = os.path.join(d, "%d-%d.json" % (ctx.seed, n))
    detail = dict(detail)
    detail.update({"property": ctx.prop, "kind": kind, "seed": ctx.seed, "tier": ctx.tier,
                   "no_failing_input_found": bool(no_input),
                   "replay_cmd": "python3 tools/check.py %s --replay %s" % (ctx.prop, path)})
    json.dump(detail, open(path, "w"), indent=1)
    ctx.violations.append(path)
    print("VIOLATION property=%s replay=%s%s" % (ctx.prop, path, " no-failing-input-found" if no_input else ""), flush=True)


def cfg_env(cfg):
    """optional 4th element of a configuration tuple: extra environment for the harness process (e.g. {"HX_ALIGN": "5"}: every parsed
    buffer is placed that many bytes past a malloc boundary, so word-at-a-time / vector code sees misaligned operands)"""
    return dict(cfg[3]) if len(cfg) > 3 and cfg[3] else None


def cfg_env_label(cfg):
    e = cfg_env(cfg)
    return "" if not e else " " + ",".join("%s=%s" % kv for kv in sorted(e.items()))


def compare_streams(ctx, mod, lines, model_out, impl_out, cfg, crashed=None, max_report=3):
    """Diff model and implementation outputs; apply the property predicate; report.
    Mismatches on which the property predicate itself fails are reported first (up to max_report); if the
    predicate holds on every mismatch a single no-failing-input-found violation names the correspondence."""
    label = "%s mask=%s %s%s" % (cfg[0], cfg[1] or "none", cfg[2], cfg_env_label(cfg))
    failing, benign, crash_at = [], [], None
    for i, ln in enumerate(lines):
        io = impl_out[i] if i < len(impl_out) else None
        mo = model_out[i]
        if io == mo:
            continue
        if io == "unavailable" and hasattr(mod, "unavailable_ok") and mod.unavailable_ok(ctx, cfg, ln):
            ctx.stats["unavailable_skipped"] = ctx.stats.get("unavailable_skipped", 0) + 1
            continue
        if io is None:
            crash_at = i
            break
        kf = match_known(ctx, mod, ctx.prop, ln, io, mo)
        if kf is not None:
            msg = "KNOWN-FINDING: property=%s %s" % (ctx.prop, kf["what"])
            if msg not in ctx.known:
                ctx.known.append(msg)
                print(msg, flush=True)
            ctx.stats["known_finding_hits"] = ctx.stats.get("known_finding_hits", 0) + 1
            continue
        fails, why = True, "implementation output differs from the model, which is proved equal to the specification"
        if hasattr(mod, "predicate"):
            fails, why = mod.predicate(ctx, ln, io, mo)
        (failing if fails else benign).append((i, ln, io, mo, why))
    nrep = 0
    for (i, ln, io, mo, why) in failing[:max_report]:
        report(ctx, "corr:" + ln.split(" ")[0], {"op": ln, "config": label, "variant": cfg[0], "mask": cfg[1], "flavour": cfg[2], "env": cfg_env(cfg),
                                                 "model": mo, "impl": io, "predicate_fails": True, "explanation": why,
                                                 "mismatches_total": len(failing) + len(benign)})
        nrep += 1
    if crash_at is not None:
        ln = lines[crash_at]
        report(ctx, "crash", {"op": ln, "config": label, "variant": cfg[0], "mask": cfg[1], "flavour": cfg[2], "env": cfg_env(cfg), "model": model_out[crash_at], "impl": None, "crash": crashed,
                              "explanation": "the implementation terminated abnormally on this operation (every earlier operation had been answered)"})
        nrep += 1
    if not failing and crash_at is None and benign:
        (i, ln, io, mo, why) = benign[0]
        report(ctx, "corr:" + ln.split(" ")[0], {"op": ln, "config": label, "variant": cfg[0], "mask": cfg[1], "flavour": cfg[2], "env": cfg_env(cfg), "model": mo, "impl": io,
                                                 "predicate_fails": False, "explanation": why, "mismatches_total": len(benign),
                                                 "correspondence": "corr:" + ln.split(" ")[0]}, no_input=True)
        nrep += 1
    return nrep


def write_evidence(ctx, level, rule, extra=None, assumptions=None):
    cov = {
        "evaluations": ctx.evaluations,
        "distinct_nontrivial": len(ctx.distinct),
        "rule": rule,
        "samples": ctx.samples[:12],
        "obligations": len(ctx.obligations),
        "discharged": ctx.discharged,
        "checker_cmd": "cd lean && lake build && lake env lean <Audit file with #print axioms for each listed theorem>",
        "trusted_base": TRUSTED_BASE,
        "theorems": ctx.obligations,
        "configs": ctx.configs_run,
        "traces_validated_against_impl": ctx.evaluations,
        "known_findings_hit": ctx.known,
    }
    if not ctx.obligations:   # no theorem merged yet for this property: exploration-style evidence only
        for k in ("obligations", "discharged", "checker_cmd", "theorems"):
            cov.pop(k, None)
        if level == "proof":
            level = "exploration"
    cov.update(ctx.stats)
    if extra:
        cov.update(extra)
    ev = {"property_id": ctx.prop, "tier": ctx.tier, "seed": ctx.seed, "level": level, "coverage": cov,
          "assumptions": assumptions or [], "wall_s": round(time.time() - ctx.t0, 2), "violations": len(ctx.violations)}
    os.makedirs(os.path.join(OUT, "evidence"), exist_ok=True)
    json.dump(ev, open(os.path.join(OUT, "evidence", ctx.prop + ".json"), "w"), indent=1)


def theorems_in(relpath, names, namespace):
    """names of the listed theorems that are present in a Properties file (files whose proofs are
    still being merged are simply absent and contribute no obligations)."""
    f = os.path.join(LEAN, relpath)
    if not os.path.exists(f):
        return []
    src = strip_comments(open(f).read())
    for t in names:
        if not re.search(r"\btheorem\s+%s\b" % re.escape(t), src):
            MISSING_THEOREMS.append("%s.%s (%s)" % (namespace, t, relpath))     # a listed property theorem was dropped / renamed: the audit refuses to run
    return [namespace + "." + t for t in names if re.search(r"\btheorem\s+%s\b" % re.escape(t), src)]


MISSING_THEOREMS = []


def tag_mutations(rng, mac, all_pairs=True):
    """Multi-position changes of an authenticator that a lane-wise / word-wise / XOR-accumulating comparison could miss: the same delta at two positions
    (every pair for tags up to 16 bytes, else every pair 1, 2, 4, 8, 16, 32 apart plus random pairs), complement, rotations, swapped halves and 8-byte words, reversal."""
    n = len(mac); out = []
    pairs = [(i, j) for i in range(n) for j in range(i + 1, n)] if (all_pairs and n <= 16) else \
            [(i, i + d) for d in (1, 2, 4, 8, 16, 32) for i in range(n - d)] + [tuple(sorted(rng.sample(range(n), 2))) for _ in range(16 if n >= 2 else 0)]
    for (i, j) in pairs:
        x = bytearray(mac); delta = rng.choice([1 << rng.randrange(8), rng.randrange(1, 256), 0xff]); x[i] ^= delta; x[j] ^= delta
        out.append(bytes(x))
    out.append(bytes(b ^ 0xff for b in mac))
    for r in (1, 4, 8):
        if n > r:
            out.append(mac[r:] + mac[:r])
    h = n // 2
    if h:
        out.append(mac[h:] + mac[:h])
    out.append(mac[::-1])
    return [x for x in out if x != mac]


def hexs(b):
    return b.hex() if len(b) else "-"


def note_case(ctx, line, nontrivial=True):
    ctx.evaluations += 1
    if nontrivial:
        ctx.distinct.add(hashlib.blake2b(line.encode(), digest_size=8).digest())
