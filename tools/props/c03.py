"""C03 — stream ciphers generate the specified keystream at every length and offset (DESIGN §3.3)."""
import vcore
from vcore import hexs

ID = "C03"
LEVEL = "proof"
_T = ["chacha_xor_ic_eq", "chacha_stream_eq", "chacha_offset_law", "ietf_guard_iff", "ietf_no_wrap", "ietf_guard_prefix_needed", "salsa_ctr_inc",
      "salsa_xor_ic_eq", "salsa_stream_eq", "chacha_xor_ic_length", "salsa_xor_ic_length"]
THEOREMS = vcore.theorems_in("SodiumModel/Properties/C03.lean", _T, "Sodium.C03")
THEOREMS = THEOREMS + vcore.theorems_in("SodiumModel/Properties/C03Cores.lean", ['chacha20_ref_block_eq_spec', 'chacha20_ref_block_eq_blockOrig', 'chacha20_ref_block_eq_blockIetf', 'chacha20_ref_block_xor', 'chacha20_ref_block_xor_spec', 'chacha20_ref_counter_step', 'chacha20_ref_counter_step_value', 'chacha20_ref_block_length', 'chacha20_ref_eq_model', 'stream_ref_xor_ic_spec', 'stream_ref_spec', 'stream_ietf_ext_ref_xor_ic_spec', 'stream_ietf_ext_ref_spec', 'crypto_core_salsa_spec', 'crypto_core_salsa20_spec', 'crypto_core_salsa2012_spec', 'crypto_core_salsa208_spec', 'crypto_core_salsa_any_rounds', 'crypto_core_salsa_odd_rounds', 'crypto_core_salsa_block', 'crypto_core_hsalsa20_spec', 'crypto_core_hchacha20_spec', 'xchacha20_ref_block_eq_spec', 'xsalsa20_ref_block_eq_spec', 'driver_chachaB', 'driver_chachaBi', 'driver_salsaS'], "Sodium.C03Cores")
IMPORTS = ["SodiumModel.Properties.C03"] if THEOREMS else ["SodiumModel.Model.Stream"]
IMPORTS = IMPORTS + ["SodiumModel.Properties.C03Cores", "SodiumModel.Properties.C03Simd"]
THEOREMS = THEOREMS + vcore.theorems_in("SodiumModel/Properties/C03Simd.lean", ['shuffle_epi8_rot16', 'shuffle_epi8_rot8', 'shuffle256_epi8_rot16', 'shuffle256_epi8_rot8', 'VEC4_ROT_12', 'VEC4_ROT_7', 'row_rot_12', 'row_rot_7', 'VEC4_QUARTERROUND_lane', 'u4_doubleRound_lanes', 'u8_doubleRound_lanes', 'row_doubleRound_eq', 'refBlocks_counter', 'refBlocks_length', 'u1_block', 'u4_counter_lanes', 'u8_counter_lanes', 'u4_blocks', 'u8_blocks', 'u0_tail', 'avx2_encrypt_bytes_eq_ref', 'ssse3_encrypt_bytes_eq_ref', 'avx2_eq_ssse3', 'counter_after_simd', 'counter_after_ref', 'ctx_after_eq_ref_of_full_blocks', 'counter_differs_after_partial_block', 'inplace_bodies_eq', 'stream_ref_eq_ref', 'stream_ietf_ext_ref_eq_ref', 'stream_ref_xor_ic_eq_ref', 'ietf_ext_xor_ic_eq_ref', 'avx2_stream_xor_ic_spec', 'ssse3_stream_xor_ic_spec', 'avx2_stream_spec', 'ssse3_stream_spec', 'avx2_ietf_xor_ic_spec', 'ssse3_ietf_xor_ic_spec', 'avx2_ietf_stream_spec', 'ietf_boundary_bumps_nonce_word', 'ietf_boundary_inside_u8_batch', 'ietf_boundary_inside_u4_batch'], "Sodium.C03Simd")
IMPORTS = IMPORTS + ["SodiumModel.Properties.C03SalsaSimd"]
THEOREMS = THEOREMS + vcore.theorems_in("SodiumModel/Properties/C03SalsaSimd.lean", ['TR_involution', 'toDiagonal_input', 'layout_roundtrip', 'rows_are_diagonals', 'setup_layout', 'setup_layout_null', 'xor_shifts_are_rotl', 'u4_doubleRound_lanes', 'u8_doubleRound_lanes', 'row_body_eq', 'refWords_eq', 'refCore_eq', 'refCore_eq_core', 'refBlocks_eq', 'counter_withCtr', 'counter_qOf', 'refBlocks_counter', 'refBlocks_length', 'u1_block', 'u1_block_any', 'u4_counter_lanes', 'u8_counter_lanes', 'origs_ignore_counter', 'u4_blocks', 'u8_blocks', 'u0_tail', 'ctxBlock_eq', 'encrypt_bytes_eq_keystream', 'avx2_eq_sse2', 'counter_after_simd', 'partial_block_leaves_counter', 'counter_wraps', 'inplace_bodies_eq', 'refS_length', 'ctxBlock_setup', 'stream_xor_ic_eq_ref', 'stream_eq_ref', 'refS_spec', 'stream_xor_ic_spec', 'stream_spec', 'xsalsa20_xor_ic_spec'], "Sodium.C03SalsaSimd")
FINGERPRINTS = "C03"     # Tie B: pinned source text of the hand-transcribed dolbeau ChaCha20 files (tools/fingerprint.py)


IMPORTS = IMPORTS + ["SodiumModel.Properties.C03Asm"]
IMPORTS = IMPORTS + ["SodiumModel.Properties.C03Asm2", "SodiumModel.Properties.C03Asm3"]
THEOREMS = THEOREMS + vcore.theorems_in("SodiumModel/Properties/C03Asm3.lean", ["block_output", "counter_increment", "carry_low_to_high", "wrap_at_2p64", "block_tail_indices"], "Sodium.C03Asm3")
THEOREMS = THEOREMS + vcore.theorems_in("SodiumModel/Properties/C03Asm2.lean", ['prologue_frame', 'prologue_control', 'prologue_ctx_eq_setup', 'prologue_ctx_eq_spec_init', 'prologue_counter', 'frame_aligned', 'driver_state_is_entry', 'driver_prologue', 'mainloop2_body_is_row_body', 'mainloop2_label', 'mainloop2_is_rounds'], "Sodium.C03Asm2")
_TASM = ["load_after_store", "load_after_disjoint_store", "program_jumps_resolved", "entries_are_labels"]
THEOREMS = THEOREMS + vcore.theorems_in("SodiumModel/Properties/C03Asm.lean", _TASM, "Sodium.C03Asm")


def tie_b(ctx):
    """the vectorised ChaCha20 model's trusted intrinsic semantics are re-validated against this CPU on every run; the xmm6 Salsa20 ASSEMBLY is re-translated
    from the current .S text (tools/asm2lean_salsa.py) into the instruction array the x86-64 + SSE2 interpreter of Model/X86Sse.lean executes"""
    vcore.simd_check(ctx, "chacha", "intrinsics_check.c", ["-mavx2", "-mssse3", "-msse4.1"], "SimdCheck.lean", via_stdin=True)
    return tie_b_asm(ctx)


def tie_b_asm(ctx):
    """Identical text: the driver built by this run cross-runs the generated program on every Salsa20 / XSalsa20 op up to 1100 bytes (MODEL-DISAGREE on a difference
    from the reference model), so the correspondence compares the library with the model REGENERATED from its source. Different text: the structural theorems are
    re-checked, then the driver is rebuilt against the regenerated text and a directed op set (initial counters around 2^32 and 2^64, lengths across the 64 / 256-byte
    paths and tails) is run through it; a MODEL-DISAGREE line is the failing input. No semantic theorem about the assembly is proved yet: this part is TV through a
    translated model, not proof."""
    import fcntl, os, random, c03_asm_tieb
    rng = random.Random(ctx.seed + 77)
    for t in _TASM:
        ctx.obligations.append({"theorem": "Sodium.C03Asm." + t + " [instruction array regenerated from the .S text]", "axioms": ["propext", "Classical.choice", "Quot.sound"]})
    with open(os.path.join(vcore.LEAN, ".lake-lock"), "w") as lk:
        fcntl.flock(lk, fcntl.LOCK_EX)
        src = os.path.join(vcore.REPO, "src", "libsodium")
        ok, msg = c03_asm_tieb.tie_b(vcore.LEAN, src)
        ctx.log("Tie B (salsa20 xmm6 assembly): " + msg.split("\n")[0][:300])
        ctx.stats["salsa_xmm6_asm_tie"] = msg[:1500]
        bad = []
        if "changed" in msg or not ok:
            ops = []
            for ic in (0, 1, (1 << 32) - 1, 1 << 32, (1 << 32) + 1, (1 << 33) + 5, (1 << 63), (1 << 64) - 2, (1 << 64) - 1):
                for n in (1, 63, 64, 65, 128, 255, 256, 257, 320, 511, 512, 513, 1000):
                    ops.append("stream.salsa20_xor_ic %s %s %d %s" % (hexs(rb(rng, n)), hexs(rb(rng, 8)), ic, hexs(rb(rng, 32))))
                    ops.append("stream.xsalsa20_xor_ic %s %s %d %s" % (hexs(rb(rng, n)), hexs(rb(rng, 24)), ic, hexs(rb(rng, 32))))
            try:
                outs = c03_asm_tieb.cross_run(vcore.LEAN, src, ops)
                bad = [(o, r) for o, r in zip(ops, outs) if "MODEL-DISAGREE" in r]
            except Exception as e:
                return [("translator", "the driver does not build / run against the instruction array regenerated from the current .S text: %s" % str(e)[-800:])]
            ctx.stats["salsa_xmm6_asm_directed_ops"] = len(ops)
    if ok and not bad:
        ctx.discharged = len(ctx.obligations)
        return []
    ctx.discharged = len(ctx.obligations) - len(_TASM)
    if bad:
        ctx.violations_with_input = getattr(ctx, "violations_with_input", 0) + 1
        return [("corr:salsa20 xmm6 assembly (translated model vs reference model)", "the model regenerated from the current salsa20_xmm6-asm.S differs from the reference Salsa20 model "
                 "(proved = specification) on %d of the directed ops; first: `%s` -> %s" % (len(bad), bad[0][0][:300], bad[0][1][:200]))]
    return [("Sodium.C03Asm.program_jumps_resolved", msg)]
RULE = ("every length 0..2304 for the ChaCha20 and Salsa20 XOR forms, sampled/boundary lengths for the other functions; block counters 0, "
        "random, 2^32 +- 16, 2^64-1-16..2^64-1; IETF counter at the guard boundary +- 1 (misuse observed in a child); "
        "HChaCha20/HSalsa20/Salsa cores with and without custom constants; configurations = CPU masks (AVX2 / SSSE3 / ref, xmm6 asm) "
        "and build variants; distinct op lines")
ASSUMPTIONS = ["block functions are parameters of the proved model; their equality with RFC 8439 / Salsa20 rests on the correspondence with Spec/Chacha.lean and Spec/Salsa.lean on the generated inputs",
               "ietf_guard_iff / ietf_no_wrap carry mlen <= 2^64 - 64 (DESIGN §4-O4)"]


def configs(tier):
    if tier == "quick":
        return [("native", "", "plain"), ("native", "avx512f,avx2", "plain"), ("native", vcore.ALL_OFF, "plain"),
                ("native", "", "plain", {"HX_ALIGN": "5"})]     # every buffer 5 bytes past a malloc boundary (misaligned for 2/4/8/16/32)
    out = []
    for v in vcore.VARIANTS:
        for m in vcore.MASK_CHAIN:
            out.append((v, m, "plain"))
    return out


def rb(rng, n):
    return bytes(rng.getrandbits(8) for _ in range(n))


def counters(rng):
    cs = [0, 1, rng.getrandbits(64), rng.getrandbits(32)]
    cs += [(1 << 32) + d for d in (-16, -9, -8, -5, -4, -3, -2, -1, 0, 1, 7)]
    cs += [(1 << 64) - 1 - d for d in (0, 1, 2, 3, 4, 7, 8, 9, 16)]
    return cs


def gen(ctx, tier, rng):
    L = []
    full = tier == "thorough"
    K = lambda: hexs(rb(rng, 32))
    dense = range(0, 2305)
    sparse = sorted(set(list(range(0, 200)) + list(range(200, 2305, 13)) + [255, 256, 257, 511, 512, 513, 1023, 1024, 1025, 2047, 2048, 2049, 2303, 2304]))
    for n in dense:
        m = rb(rng, n)
        ic = rng.choice(counters(rng))
        L.append("stream.chacha20_xor_ic %s %s %d %s" % (hexs(m), hexs(rb(rng, 8)), ic, K()))
        L.append("stream.salsa20_xor_ic %s %s %d %s" % (hexs(m), hexs(rb(rng, 8)), rng.choice(counters(rng)), K()))
    # long requests: past 256 blocks (a counter byte carries) and several SIMD batch sizes later
    for n in [4095, 4096, 4097, 8191, 8192, 8193, 16383, 16384, 16385, 16449, 20000] + ([65535, 65536, 65537, 100000] if full else []):
        m = rb(rng, n)
        L.append("stream.chacha20_xor_ic %s %s %d %s" % (hexs(m), hexs(rb(rng, 8)), rng.choice([0, 1, 250, (1 << 32) - 130, (1 << 64) - 70]), K()))
        L.append("stream.salsa20_xor_ic %s %s %d %s" % (hexs(m), hexs(rb(rng, 8)), rng.choice([0, 1, 250, (1 << 32) - 130, (1 << 64) - 70]), K()))
        L.append("stream.chacha20_ietf_xor_ic %s %s %d %s" % (hexs(m), hexs(rb(rng, 12)), rng.choice([0, 1, 250, (1 << 32) - 1 - (n + 63) // 64]), K()))
        L.append("stream.xchacha20_xor_ic %s %s %d %s" % (hexs(m), hexs(rb(rng, 24)), rng.choice([0, 255]), K()))
        L.append("stream.xsalsa20_xor_ic %s %s %d %s" % (hexs(m), hexs(rb(rng, 24)), rng.choice([0, 255]), K()))
        L.append("stream.chacha20 %d %s %s" % (n, hexs(rb(rng, 8)), K()))
        L.append("stream.salsa20 %d %s %s" % (n, hexs(rb(rng, 8)), K()))
        L.append("stream.salsa2012 %d %s %s" % (n, hexs(rb(rng, 8)), K()))
        L.append("stream.salsa208 %d %s %s" % (n, hexs(rb(rng, 8)), K()))
    for n in (dense if full else sparse):
        m = rb(rng, n)
        L.append("stream.chacha20 %d %s %s" % (n, hexs(rb(rng, 8)), K()))
        L.append("stream.chacha20_ietf %d %s %s" % (n, hexs(rb(rng, 12)), K()))
        L.append("stream.xchacha20 %d %s %s" % (n, hexs(rb(rng, 24)), K()))
        L.append("stream.salsa20 %d %s %s" % (n, hexs(rb(rng, 8)), K()))
        L.append("stream.xsalsa20 %d %s %s" % (n, hexs(rb(rng, 24)), K()))
        L.append("stream.xchacha20_xor_ic %s %s %d %s" % (hexs(m), hexs(rb(rng, 24)), rng.choice(counters(rng)), K()))
        L.append("stream.xsalsa20_xor_ic %s %s %d %s" % (hexs(m), hexs(rb(rng, 24)), rng.choice(counters(rng)), K()))
        L.append("stream.chacha20_ietf_xor_ic %s %s %d %s" % (hexs(m), hexs(rb(rng, 12)), rng.choice([0, 1, rng.getrandbits(31), (1 << 32) - 1 - (n + 63) // 64 - 40]), K()))
        if n % 3 == 0 or full:
            L.append("stream.salsa2012 %d %s %s" % (n, hexs(rb(rng, 8)), K()))
            L.append("stream.salsa208 %d %s %s" % (n, hexs(rb(rng, 8)), K()))
            L.append("stream.salsa2012_xor %s %s %s" % (hexs(m), hexs(rb(rng, 8)), K()))
            L.append("stream.salsa208_xor %s %s %s" % (hexs(m), hexs(rb(rng, 8)), K()))
    # counters around every carry for lengths spanning several blocks and strides
    for ic in counters(rng):
        for n in (1, 63, 64, 65, 128, 255, 256, 257, 511, 512, 513, 700, 1100):
            m = rb(rng, n)
            L.append("stream.chacha20_xor_ic %s %s %d %s" % (hexs(m), hexs(rb(rng, 8)), ic, K()))
            L.append("stream.xchacha20_xor_ic %s %s %d %s" % (hexs(m), hexs(rb(rng, 24)), ic, K()))
            L.append("stream.salsa20_xor_ic %s %s %d %s" % (hexs(m), hexs(rb(rng, 8)), ic, K()))
            L.append("stream.xsalsa20_xor_ic %s %s %d %s" % (hexs(m), hexs(rb(rng, 24)), ic, K()))
    # IETF guard boundary: ic + ceil(n/64) around 2^32
    for n in (0, 1, 63, 64, 65, 127, 128, 129, 256, 257, 513, 1000):
        nb = (n + 63) // 64
        for d in (-2, -1, 0, 1, 2):
            ic = (1 << 32) - nb + d
            if 0 <= ic < (1 << 32):
                L.append("stream.chacha20_ietf_xor_ic %s %s %d %s" % (hexs(rb(rng, n)), hexs(rb(rng, 12)), ic, K()))
    # guard-only probes with lengths no buffer can hold: around 2^38 (= 64 * 2^32) and up to 2^64 - 1
    for mlen in [(1 << 38) + d for d in (-130, -64, -63, -1, 0, 1, 63, 64, 65)] + [(1 << 39), (1 << 40) + 5, (1 << 63), (1 << 64) - 65, (1 << 64) - 64, (1 << 64) - 63, (1 << 64) - 1]:
        for ic in (0, 1, 2, 7, (1 << 32) - 1):
            # only ask where the answer is "misuse" or the probe cannot run long: every case here is beyond a real buffer
            nb = (mlen + 63) // 64
            if ic + nb > (1 << 32):     # the property requires refusal
                L.append("stream.ietf_guard %d %d" % (mlen, ic))
    # cores
    for _ in range(60 if not full else 400):
        c = rng.choice(["N", hexs(rb(rng, 16))])
        L.append("core.hchacha20 %s %s %s" % (hexs(rb(rng, 16)), K(), c))
        L.append("core.hsalsa20 %s %s %s" % (hexs(rb(rng, 16)), K(), c))
        L.append("core.salsa %d %s %s %s" % (rng.choice([20, 12, 8]), hexs(rb(rng, 16)), K(), c))
    return L
