"""C19 — initialisation and all operations are thread-safe (DESIGN §3.19)."""
import importlib, json, os, re, subprocess, time
import vcore

ID = "C19"
LEVEL = "proof"
_T = ["init_safety", "init_once", "init_completes", "no_deadlock"]
THEOREMS = vcore.theorems_in("SodiumModel/Properties/C19.lean", _T, "Sodium.C19")
IMPORTS = ["SodiumModel.Properties.C19"] if THEOREMS else ["SodiumModel.Model.Init"]
# Tie B (session 6): table of static objects / accesses / call graph regenerated from the clang AST of the current source (tools/c2lean_globals.py);
# general theorem "raceFreeWith table policy = true -> no race in any interleaving of post-init API calls" + the kernel-decided instance on the generated table
_TG = ["race_free_of_check", "no_race_of_check", "race_free_after_init", "written_object_locked", "table_race_free", "libsodium_race_free", "needs_exempt_sodium_misuse",
       "needs_allow_randombytes_implementation", "needs_allow_internal_global", "needs_allow_sysrandom_stream", "offenders_without_policy", "api_event_after_init",
       "init_then_race_free", "api_before_init_disabled"]
THEOREMS = THEOREMS + vcore.theorems_in("SodiumModel/Properties/C19Globals.lean", _TG, "Sodium.C19Globals")
IMPORTS = IMPORTS + ["SodiumModel.Properties.C19Globals"]


def tie_b(ctx):
    """regenerate Generated/Globals.lean from the CURRENT source; identical text: the theorems built by this run are about the code as it is; different text: the
    regenerated table is put in place, `table_race_free` (decide +kernel) re-checked against it, and the committed file restored.  The translator's object list is
    cross-checked against objdump -t of a native build (covers the assembly files, which have no AST)."""
    import fcntl, c19_tieb
    gen = os.path.join(vcore.LEAN, "Generated", "Globals.lean")
    old = open(gen).read()
    for t in _TG:
        ctx.obligations.append({"theorem": "Sodium.C19Globals." + t + " [table regenerated from the source]", "axioms": ["propext", "Classical.choice", "Quot.sound"]})
    with open(os.path.join(vcore.LEAN, ".lake-lock"), "w") as lk:
        fcntl.flock(lk, fcntl.LOCK_EX)
        try:
            ok, msg, off = c19_tieb.tie_b(vcore.LEAN, os.path.join(vcore.REPO, "src", "libsodium"), outdir=os.path.join(ctx.scratch, "tieb-globals"))
        finally:
            if open(gen).read() != old:
                open(gen, "w").write(old)
                subprocess.run(["lake", "build", "SodiumModel.Properties.C19Globals"], cwd=vcore.LEAN, capture_output=True, text=True)
                ctx.stats["globals_table_regenerated_differs"] = True
    ctx.log("Tie B (globals table): " + msg.split("\n")[0][:300])
    ctx.stats["globals_table"] = msg[:1500]
    if ok:
        ctx.discharged = len(ctx.obligations)
        return []
    ctx.discharged = len(ctx.obligations) - len(_TG)
    return [("Sodium.C19Globals.table_race_free", msg)]
RULE = ("N = 2..16 threads released from one barrier with seeded random spins / yields race sodium_init, each then runs the same mixed workload "
        "(comparison helpers, padding, codecs, stream ciphers, hashes / MACs / KDFs, AEADs, X25519 / box / sign, default and internal random generator, guarded allocation, key generators) "
        "starting at a different offset; observed: multiset of sodium_init returns, post-return initialisation probes, per-thread outputs against the model and the sequential run; "
        "the same workload under -fsanitize=thread (happens-before race detection), with the system and the internal generator; table of writable globals of the built library against the classified list")
ASSUMPTIONS = ["the theorems are about the lock protocol of sodium_init with pthread_mutex_lock / unlock assumed to be a correct mutex and never to fail (the LCOV_EXCL return -1 paths are not modelled)",
               "data-race freedom after initialisation: Lean theorem over the table of static objects, accesses, lock contexts and call graph REGENERATED from the clang AST of the current source "
               "(race_free_after_init + table_race_free), under the named policy of Model/Globals.lean (sodium_misuse, randombytes_set_implementation, randombytes_close exempt; internal / sysrandom "
               "first-use state allow-listed) and with lock-held accesses taken as mutually exclusive; races through caller-owned memory (shared const inputs) are not in the table: they are "
               "decided by ThreadSanitizer's happens-before analysis of the executed workload, which hand-written assembly escapes",
               "the Windows / no-pthread variants of the critical section are not built here"]

# writable (non-const) objects with static storage in the built library, each with the reason it is race-free.
GLOBALS = {
    "core.o:initialized": "written once under _sodium_lock in sodium_init; read under the lock",
    "core.o:locked": "read / written only while _sodium_lock is held",
    "core.o:_sodium_lock": "the pthread mutex itself",
    "core.o:_misuse_handler": "written under the lock by sodium_set_misuse_handler; documented as set-before-use",
    "runtime.o:_cpu_features": "written by _sodium_runtime_get_cpu_features during sodium_init (under the lock), read-only afterwards",
    "utils.o:page_size": "written by _sodium_alloc_init during sodium_init, read-only afterwards",
    "utils.o:canary": "written by _sodium_alloc_init during sodium_init, read-only afterwards",
    "randombytes.o:implementation": "written by randombytes_set_implementation (documented: before sodium_init) or lazily under sodium_init; read-only afterwards",
    "randombytes_internal_random.o:global(pid)": "global.pid is only stored when it differs from getpid() (fix for the concurrent-first-use race, see known_findings.json)",
    "randombytes_sysrandom.o:stream": "sysrandom state: initialised by stir during sodium_init; getrandom path is stateless afterwards",
    "randombytes_internal_random.o:stream": "thread-local (TLS) stream state",
    "softaes.o:_aes_lut": "declared non-const (hidden visibility) but never written; only read through the const pointer LUT (found by the globals translator)",
    "randombytes_internal_random.o:global": "initialised by stir under sodium_init (or first use, documented as requiring sodium_init first); read-only afterwards",
}
PATTERNS = [
    re.compile(r":implementation$"),            # per-primitive implementation pointers: written only by the _pick_best_implementation calls inside sodium_init (under the lock)
    re.compile(r":[a-z0-9_]+_implementation$"), # tables of function pointers: initialised statically, never written (non-const only by declaration)
    re.compile(r":optblocker_u(8|64)$"),        # volatile optimisation blockers: read, never written
    re.compile(r"^(blake2b-ref\.o:blake2b_compress|argon2-core\.o:fill_segment)$"),   # function pointers written by the pick_best calls inside sodium_init
    re.compile(r":devices$"),                   # static table of device names, never written
    re.compile(r"^runtime\.o:_sodium_verif_regs$"),   # verification hook H2 (guarded by SODIUM_VERIF), written once under sodium_init
]


def configs(tier):
    return [("native", "", "plain")]


def _sample_lines(ctx, rng, per):
    """mostly-valid op lines from the other families' generators, restricted to in-contract (non-forking) stateless ops"""
    out = []
    for name in ("c14", "c16", "c15", "c03", "c04", "c01", "c05", "c06"):
        try:
            m = importlib.import_module("props." + name)
            import random
            ls = m.gen(ctx, "quick", random.Random(ctx.seed * 7919 + len(out)))
        except Exception as e:       # a generator that needs its own context is skipped, and recorded
            ctx.stats.setdefault("skipped_generators", []).append("%s: %s" % (name, e))
            continue
        ls = [l for l in ls if isinstance(l, str) and len(l) < 3000 and not l.startswith(("enum.", "case.", "stream.ietf_guard", "rt.", "asis.", "ss.", "rng.", "rngint"))]   # rng.* ops install a scripted random source
        # process-wide (randombytes_set_implementation: documented as not thread-safe, exempt in the C19 policy); sampled into a threaded workload they make OTHER threads draw from the script
        rng.shuffle(ls)
        out += ls[:per]
    return out


def _hxt(ctx, flavour):
    return vcore.build_hx(ctx, "native", flavour, extra_sources=vcore.hx_sources() + [os.path.join(vcore.HARNESS, "hxt.c")],
                          extra_flags=["-DHX_NO_MAIN"], name="hxt", wrap=True)


def _run_hxt(ctx, exe, n, seed, rngname, lines, mask="", tsan=False):
    e = dict(os.environ)
    e["SODIUM_VERIF_CPU_DISABLE"] = mask
    if tsan:
        e["TSAN_OPTIONS"] = "halt_on_error=0:exitcode=66:report_signal_unsafe=0:history_size=4"
    e["HX_NOFORK"] = "1"
    p = subprocess.run([exe, str(n), str(seed), rngname], input="\n".join(lines) + "\n", capture_output=True, text=True, env=e, cwd=ctx.scratch, timeout=600)
    out = p.stdout.split("\n")
    if out and out[-1] == "":
        out.pop()
    # last line: the shared-const-input rounds (hxt.c); taken off here and checked by _shared_ok
    _run_hxt.shared = out.pop() if out and out[-1].startswith("shared ") else "missing"
    return p.returncode, out, p.stderr


def _shared_ok(ctx, cfg, lines):
    sh = getattr(_run_hxt, "shared", "missing")
    if re.fullmatch(r"shared rounds=\d+ bad=0 -", sh):
        ctx.stats["shared_const_input_rounds"] = ctx.stats.get("shared_const_input_rounds", 0) + int(sh.split("rounds=")[1].split(" ")[0])
        return True
    vcore.report(ctx, "shared-inputs", dict(cfg, what="threads using the SAME const inputs (key / precomputed state / message) with distinct output buffers got a result that differs from the "
                                            "single-threaded one-shot reference", impl=sh, ops=lines[:1]))
    return False


def writable_globals(lib):
    """(object:symbol, section) for every object with static storage in a writable section of the archive"""
    p = subprocess.run(["objdump", "-t", lib], capture_output=True, text=True)
    res, obj = [], None
    for ln in p.stdout.split("\n"):
        m = re.match(r"^(\S+\.o):\s+file format", ln)
        if m:
            obj = re.sub(r"^.*?-", "", m.group(1)) if False else m.group(1)
            continue
        m = re.match(r"^[0-9a-f]+\s+(\S+)\s+(\S*)\s*(\.t?bss\S*|\.t?data\S*)\s+([0-9a-f]+)\s+(?:\.hidden\s+|\.internal\s+|\.protected\s+)?(\S+)$", ln)   # (symbols with a visibility marker were dropped by the first version of this expression: softaes.o:_aes_lut)
        if m and ("O" in (m.group(1) + m.group(2)) or m.group(3).startswith(".t")) and int(m.group(4), 16) > 0 and not m.group(3).startswith((".data.rel.ro", ".rodata")):
            res.append((obj, m.group(5), m.group(3)))
    return res


def extra(ctx, rng):
    full = ctx.tier != "quick"
    work = _sample_lines(ctx, rng, 40 if full else 14)
    thr = ["thr.keygen"] + ["thr.closebuf %d" % n for n in (0, 16, 32, 64, 300)] * 3 + ["thr.rand %d" % n for n in (0, 1, 16, 32, 255, 256, 257, 4096)] + \
          ["thr.uniform %d %d" % (ub, 40) for ub in (0, 1, 2, 3, 255, 256, 1000003, 0x80000000, 0xffffffff)] + \
          ["thr.alloc %d %d" % (n, n % 251) for n in (0, 1, 15, 16, 17, 4079, 4080, 4081, 4096, 70000)]
    lines = thr + work
    rng.shuffle(lines)
    lines = ["rt.flags"] + lines
    for ln in lines:
        vcore.note_case(ctx, ln)
    model = ["host-dependent"] + vcore.run_model(ctx, lines[1:])
    bad = [l for l, m in zip(lines, model) if m in ("bad-op", "bad-args")]
    if bad:
        raise vcore.BrokenCheck("workload contains ops the model driver rejects: %s" % bad[:3])
    keep = [i for i, m in enumerate(model) if m != "misuse" and not m.startswith("misuse")]
    lines = [lines[i] for i in keep]
    model = [model[i] for i in keep]
    hx = vcore.build_hx(ctx, "native", "plain")
    seq, crashed = vcore.run_impl(ctx, hx, lines)
    if crashed:
        raise vcore.BrokenCheck("sequential reference run failed: %s" % crashed)
    # ops that observe misuse in a forked child cannot run inside a multi-threaded (TSan) process: identify them with HX_NOFORK and leave them out
    nf, _ = vcore.run_impl(ctx, hx, lines, env={"HX_NOFORK": "1"})
    keep = [i for i in range(len(lines)) if i < len(nf) and nf[i] == seq[i]]
    ctx.stats["forking_ops_left_out"] = len(lines) - len(keep)
    lines = [lines[i] for i in keep]; model = [model[i] for i in keep]; seq = [seq[i] for i in keep]
    flags_line = seq[0]
    model[0] = flags_line          # rt.flags is host-dependent: the sequential run is the reference
    ctx.stats["workload_ops"] = len(lines)
    ctx.stats["workload_families"] = sorted({l.split(" ")[0].split(".")[0] for l in lines})
    ctx.stats["seq_vs_model_mismatch"] = sum(1 for a, b in zip(seq, model) if a != b)
    ctx.samples = [{"op": l[:200], "model": m[:120]} for l, m in list(zip(lines, model))[:6]]

    exe = _hxt(ctx, "plain")
    ns = [2, 3, 5, 8, 16] if not full else list(range(2, 17))
    reps = 3 if not full else 12
    races = 0
    for n in ns:
        for r in range(reps):
            seed = ctx.seed * 1000 + n * 37 + r
            rname = "internal" if (r % 3 == 2) else "sys"
            rc, out, err = _run_hxt(ctx, exe, n, seed, rname, lines)
            races += 1
            ctx.evaluations += 1
            mline = vcore.run_model(ctx, ["init.race %d %d" % (n, seed)])[0]
            cfg = {"threads": n, "seed": seed, "rng": rname}
            if rc != 0 or len(out) != len(lines) + 1:
                vcore.report(ctx, "crash", dict(cfg, what="threaded run crashed or truncated", rc=rc, stderr=err[-2000:], ops=lines))
                return
            if out[0] != mline:
                vcore.report(ctx, "init-returns", dict(cfg, what="sodium_init returns / initialisation probes under a %d-thread race differ from the model (theorems init_once, init_safety)" % n,
                                                      impl=out[0], model=mline, ops=lines[:1]))
                return
            if not _shared_ok(ctx, cfg, lines):
                return
            for k, (o, s_, m_) in enumerate(zip(out[1:], seq, model)):
                if o != s_:
                    vcore.report(ctx, "thread-result", dict(cfg, what="an operation returned a different result under concurrency than sequentially",
                                                           op=lines[k], threaded=o[:600], sequential=s_[:600], model=m_[:600], ops=lines))
                    return
    # init-only races (no workload): cheap, so many more schedules of the once-initialisation itself
    nonly = 0
    for r in range(90 if not full else 1500):
        n = (4, 8, 12, 16, 16, 16)[r % 6]
        seed = ctx.seed * 5000 + r
        rc, out, err = _run_hxt(ctx, exe, n, seed, "sys", [])
        nonly += 1
        ctx.evaluations += 1
        mline = vcore.run_model(ctx, ["init.race %d %d" % (n, seed)])[0] if r < 6 else "init zero=1 one=%d other=0 early=0" % (n - 1)
        if rc != 0 or out[:1] != [mline]:
            vcore.report(ctx, "init-returns", {"threads": n, "seed": seed, "rng": "sys", "what": "sodium_init returns / initialisation probes under a %d-thread race differ from the model (theorems init_once, init_safety)" % n,
                                               "impl": out[0] if out else "rc=%d %s" % (rc, err[-300:]), "model": mline, "ops": []})
            return
        if not _shared_ok(ctx, {"threads": n, "seed": seed, "rng": "sys"}, []):
            return
    ctx.stats["init_only_races"] = nonly
    ctx.configs_run.append({"variant": "native", "flavour": "plain", "races": races, "init_only_races": nonly, "threads": ns, "ops_per_thread": len(lines)})
    ctx.log("%d threaded races (N in %s), %d ops per thread: init returns and all outputs agree" % (races, ns, len(lines)))

    # happens-before race detection
    texe = _hxt(ctx, "tsan")
    truns = [(8, "sys", ""), (5, "internal", ""), (16, "sys", vcore.ALL_OFF if hasattr(vcore, "ALL_OFF") else "")]
    if full:
        truns += [(n, r, "") for n in (2, 3, 4, 12, 16) for r in ("sys", "internal")]
    for (n, rname, mask) in truns:
        seed = ctx.seed * 77 + n
        t = time.time()
        rc, out, err = _run_hxt(ctx, texe, n, seed, rname, lines, mask=mask, tsan=True)
        ctx.evaluations += 1
        ctx.configs_run.append({"variant": "native", "flavour": "tsan", "threads": n, "rng": rname, "mask": mask or "none", "wall_s": round(time.time() - t, 2)})
        if "ThreadSanitizer" in err or rc == 66:
            first = err[err.find("WARNING: ThreadSanitizer"):][:4000]
            vcore.report(ctx, "data-race", {"threads": n, "seed": seed, "rng": rname, "mask": mask, "what": "ThreadSanitizer reports unordered conflicting accesses", "report": first, "ops": lines})
            return
        if rc != 0:
            vcore.report(ctx, "crash", {"threads": n, "seed": seed, "rng": rname, "what": "tsan run failed", "rc": rc, "stderr": err[-2000:], "ops": lines})
            return
    ctx.log("ThreadSanitizer: %d runs clean" % len(truns))

    # table of writable globals
    lib = vcore.build_lib(ctx, "native", "plain")
    gl = writable_globals(lib)
    unknown = []
    for (obj, sym, sec) in gl:
        base = re.sub(r"^[0-9a-f]{10}_", "", obj)
        key = "%s:%s" % (base, re.sub(r"\.\d+$", "", sym))
        if key in GLOBALS or any(p.search(key) for p in PATTERNS):
            if key == "randombytes_internal_random.o:stream" and not sec.startswith(".t"):
                unknown.append((key, sec, "expected thread-local storage"))
            continue
        unknown.append((key, sec, "not in the classified table"))
    ctx.stats["writable_globals"] = ["%s:%s %s" % g for g in gl]
    if unknown:
        vcore.report(ctx, "globals-table", {"what": "the built library has writable static objects the race-freedom argument does not cover", "objects": unknown,
                                            "correspondence": "tools/props/c19.py GLOBALS table vs objdump -t of the native build"}, no_input=True)


def replay(ctx, r):
    print(json.dumps({k: v for k, v in r.items() if k != "ops"}, indent=1)[:3000])
    if "threads" not in r:
        return 1
    exe = _hxt(ctx, "tsan" if r["kind"] == "data-race" else "plain")
    bad = 0
    for k in range(10):
        rc, out, err = _run_hxt(ctx, exe, r["threads"], r["seed"] + k, r.get("rng", "sys"), r["ops"], mask=r.get("mask", ""), tsan=r["kind"] == "data-race")
        if r["kind"] == "data-race":
            bad += ("ThreadSanitizer" in err)
        else:
            m = vcore.run_model(ctx, ["init.race %d %d" % (r["threads"], r["seed"])])[0]
            bad += (rc != 0 or out[:1] != [m])
    print("%d of 10 re-runs reproduce" % bad)
    if bad:
        print("VIOLATION property=C19 replay=(this file)")
    return 1 if bad else 0
