"""C16 — padding round-trips for every length and block size and rejects invalid padding (DESIGN §3.16)."""
import itertools
import vcore
from vcore import hexs

ID = "C16"
LEVEL = "proof"
IMPORTS = ["SodiumModel.Properties.C16"]
THEOREMS = ["Sodium.C16." + t for t in ["padLen_props", "pad_spec", "pad_in_bounds", "unpad_spec",
                                        "unpad_reads_final_block", "unpad_pad", "pad_eq_closed"]]
RULE = ("pad: lengths 0..300 x block sizes 1..130 and powers of two up to 2^20 x capacities around the padded length "
        "(0, n, padded-1, padded, padded+1), plus out-of-contract lengths near SIZE_MAX (misuse); unpad: every final block over "
        "{00,80,other}^b for b<=6 embedded in longer buffers, mutated padded buffers, bs > len, bs = 0; distinct op lines")
ASSUMPTIONS = ["pad_spec carries the hypothesis cap <= 2^56 (the >>56 barrier of sodium_pad is a 0/0xff mask only below 2^56); "
               "every real buffer satisfies it"]


def configs(tier):
    if tier == "quick":
        return [("native", "", "plain"), ("native", "", "plain", {"HX_ALIGN": "3"})]
    return [("native", "", "plain"), ("portable", "", "plain"), ("native", "", "asan")]


def padlen(n, bs):
    return n + bs - n % bs


def gen(ctx, tier, rng):
    L = []
    full = tier == "thorough"
    bss = list(range(1, 131)) + [1 << k for k in range(8, 21)] + [1000, 4097]
    ns = list(range(0, 301))
    for bs in bss:
        nn = ns if (full or bs <= 20 or bs in (64, 128, 100, 127)) else [0, 1, bs - 1, bs, bs + 1, 2 * bs - 1, 2 * bs, 299, 300] + rng.sample(ns, 6)
        for n in nn:
            p = padlen(n, bs)
            if p > 70000 and not (n in (0, 1, 300)):
                continue
            caps = {p, p - 1, p + 1} if (full or n % 7 == 0) else {p}
            if n % 50 == 0:
                caps |= {0, n, n + 1}
            for cap in sorted(c for c in caps if c >= 0):
                if cap > 300000:
                    continue
                # data bytes random non-zero, the rest of the capacity a sentinel pattern so unwritten bytes are visible
                data = bytes(rng.randrange(1, 256) for _ in range(min(n, cap)))
                rest = bytes(0xA0 + (i % 0x50) for i in range(max(cap - n, 0)))
                L.append("pad %s %d %d" % (hexs(data + rest), n, bs))
    # huge block sizes (the marker loop compares indices through the top byte of a size_t: every block size must behave alike), with
    # zero and non-zero previous buffer contents, capacity exact / one short / generous
    for bs in [(1 << k) + d for k in (16, 20, 23, 24, 25, 26) for d in (-1, 0, 1)] + [16777217, 50000000]:
        for n in ((0, 100, bs + 1) if tier != "thorough" else (0, 1, 100, bs - 1, bs, bs + 1)):
            for fill in (0x00, 0xff):
                for delta in ((0, 1, 2) if (fill == 0xff and n == 100) else (1,)):
                    L.append("pad.big %d %d %d %d" % (n, bs, fill, delta))
    # buffer lengths of 2^32 and more ("for every buffer length"): the capacity is reserved without backing, only the final block is accessible
    for n in [(1 << k) + d for k in (31, 32, 33, 36, 39) for d in (-3, -1, 0, 1, 2)] + [3 * (1 << 31) + 1, rng.randrange(1 << 32, 1 << 39)]:
        for bs in (1, 2, 3, 7, 8, 16, 24, 255, 256, 257, 1000, 4096, 5000, 65537, (1 << 22) - 1):
            L.append("pad.huge %d %d %d %d" % (n, bs, 0xff, 1))
        L.append("pad.huge %d 3 0 0" % n)
        L.append("pad.huge %d 3 255 2" % n)
    # blocksize 0, and out-of-contract n (n > cap): error / misuse paths
    buf = bytes(range(1, 33))
    L.append("pad %s 5 0" % hexs(buf))
    for n in [33, 1 << 32, (1 << 64) - 1, (1 << 64) - 2, (1 << 64) - 7, (1 << 64) - 8, (1 << 64) - 9, (1 << 64) - 16, (1 << 64) - 17, (1 << 63)]:
        for bs in [1, 2, 7, 8, 16, 3, (1 << 63), (1 << 64) - 1]:
            L.append("pad %s %d %d" % (hexs(buf), n, bs))
    # unpad: exhaustive final blocks over {00, 80, other}
    alph = [0x00, 0x80, 0x01]
    maxb = 6 if full else 5
    for b in range(1, maxb + 1):
        for blk in itertools.product(alph, repeat=b):
            # the byte just before the final block is part of the enumeration (unpad_reads_final_block:
            # the result must not depend on it), plus the case where the block is the whole buffer
            L.append("unpad %s %d" % (hexs(bytes(blk)), b))
            for before in (0x00, 0x80, 0x01):
                pre = bytes(rng.choice([0x00, 0x80, 0x55]) for _ in range(rng.randrange(0, 3)))
                L.append("unpad %s %d" % (hexs(pre + bytes([before]) + bytes(blk)), b))
    # unpad: other bytes (0x81, 0x7f, 0xff, 0x08) must not be taken for the marker
    for other in (0x81, 0x7f, 0xff, 0x08, 0x40):
        for b in (1, 2, 4, 8, 16):
            for z in range(b):
                blk = bytes([0x11] * (b - z - 1) + [other] + [0] * z)
                L.append("unpad %s %d" % (hexs(b"\x33\x80" + blk), b))
    # unpad: padded buffers, larger sizes incl. pad_len with bit 8 set (> 256 zeros) and mutations
    for bs in [1, 2, 3, 16, 64, 255, 256, 257, 300, 512, 513, 1024]:
        for n in [0, 1, bs - 1, bs, bs + 1, 2 * bs + 3]:
            p = padlen(n, bs)
            data = bytes(rng.randrange(1, 256) for _ in range(n))
            padded = data + b"\x80" + bytes(p - n - 1)
            L.append("unpad %s %d" % (hexs(padded), bs))
            for _ in range(4 if not full else 12):
                m = bytearray(padded)
                i = rng.randrange(max(0, p - bs), p)
                m[i] ^= 1 << rng.randrange(8)
                L.append("unpad %s %d" % (hexs(bytes(m)), bs))
            L.append("unpad %s %d" % (hexs(padded), p + 1))      # blocksize > length
            L.append("unpad %s %d" % (hexs(padded[:-1]), bs))    # truncated
    L.append("unpad %s 0" % hexs(b"\x01\x80"))
    L.append("unpad - 1")
    L.append("unpad - 0")
    return L


def predicate(ctx, line, impl, model):
    p = line.split(" ")
    bx = lambda s: b"" if s == "-" else bytes.fromhex(s)
    if p[0] in ("pad.big", "pad.huge"):
        n, bs, delta = int(p[1]), int(p[2]), int(p[4])
        exp = "-1" if delta == 0 else "0 %d marker=128 tailnz=0 dataok=1 unpad=0,%d" % (padlen(n, bs), n)
        return impl != exp, "padding of a huge block is not 0x80 followed by zeros / does not round-trip" if impl != exp else "as specified"
    if p[0] == "pad":
        buf, n, bs = bx(p[1]), int(p[2]), int(p[3])
        cap = len(buf)
        if bs == 0:
            exp = "-1 " + hexs(buf)
        elif (1 << 64) - 1 - n <= bs - 1 - n % bs:
            exp = "misuse"
        elif padlen(n, bs) > cap:
            exp = "-1 " + hexs(buf)
        else:
            pl = padlen(n, bs)
            exp = "0 %d %s" % (pl, hexs(buf[:n] + b"\x80" + bytes(pl - n - 1) + buf[pl:]))
    else:
        buf, bs = bx(p[1]), int(p[2])
        if bs == 0 or len(buf) < bs:
            exp = "-1 unset"
        else:
            blk = buf[len(buf) - bs:]
            z = 0
            while z < bs and blk[bs - 1 - z] == 0:
                z += 1
            if z < bs and blk[bs - 1 - z] == 0x80:
                exp = "0 %d" % (len(buf) - 1 - z)
            else:
                exp = None  # failure: only the return code is specified
                if impl.split(" ")[0] != "0":
                    return False, "implementation rejects as the property requires; only the unspecified length output differs from the model"
                return True, "invalid padding accepted: final block has no 0x80 marker followed only by zeros"
    if impl != exp:
        return True, "property predicate evaluated independently: expected '%s', implementation returned '%s'" % (exp[:120], impl[:120])
    return False, "implementation agrees with the independent predicate but not with the model"
