"""C09 — secretstream delivers exactly the pushed sequence of messages (DESIGN §3.9)."""
import vcore
from vcore import hexs

ID = "C09"
LEVEL = "proof"
_T = ["push_state_ok", "push_chunk_layout", "pull_push", "rekey_state_ok", "sync_history", "short_rejected",
      "pull_accept_mac", "macInput_injective", "advance_eq", "counter_wrap_rekeys"]
THEOREMS = vcore.theorems_in("SodiumModel/Properties/C09.lean", _T, "Sodium.C09")
IMPORTS = ["SodiumModel.Properties.C09"] if THEOREMS else ["SodiumModel.Model.Secretstream"]
RULE = ("(a third of the pulls / a quarter of the pushes go through the optional-pointer call forms: m == NULL for an empty message, mlen_p / tag_p / outlen_p == NULL) "
        "random histories (depth 40 quick / 400 thorough) over {push(tag, len, ad), explicit rekey, genuine pull, forged pull "
        "(replayed, skipped-ahead, swapped, truncated at every length for short chunks, single-bit flips, wrong ad, foreign stream)}, "
        "from initial counters 1 and 2^32-k (k<=4) set through the public state; sender and receiver state printed after every op; "
        "the generator asserts on the model that every genuine pull succeeds with the pushed message/tag and every forged pull fails")
ASSUMPTIONS = ["ChaCha20-IETF keystream, Poly1305 and HChaCha20 are parameters of the theorems (tied to the specs by C03/C04 correspondence)",
               "rejection of deviating chunks beyond 'the MAC under the current chained state does not match' is a MAC-unforgeability statement, exercised by the forged pulls, not proved"]
MODEL_OUT = None
STATS = {}


def configs(tier):
    if tier == "quick":
        return [("native", "", "plain"), ("native", vcore.ALL_OFF, "plain")]
    return [(v, m, "plain") for v in vcore.VARIANTS for m in ("", "avx512f,avx2", vcore.ALL_OFF)]


def rb(rng, n):
    return bytes(rng.getrandbits(8) for _ in range(n))


LENS = [0, 0, 1, 15, 16, 17, 31, 32, 47, 48, 63, 64, 65, 100, 127, 128, 129, 255, 256, 1023]


def pull_line(rng, stats, slot, chunk, ad, genuine_empty=False):
    """a pull op line; a third of the time through the optional-pointer call forms (mlen_p / tag_p NULL, and m NULL when the chunk carries
    an empty message — the pointer an application holds for a zero-length output): verdict, message, tag and state must be the same"""
    if rng.random() < 0.35 or (len(chunk) == 17 and rng.random() < 0.6):
        fl = rng.choice([2, 4, 6])
        if len(chunk) == 17:
            fl = rng.choice([1, 1, 3, 5, 7])
        stats["optional_pointer_pulls"] = stats.get("optional_pointer_pulls", 0) + 1
        return "ss.pullx %d %s %s %d" % (slot, hexs(chunk), hexs(ad), fl), fl
    return "ss.pull %d %s %s" % (slot, hexs(chunk), hexs(ad)), 0


def history(ms, rng, depth, stats):
    key, hdr = rb(rng, 32), rb(rng, 24)
    ms.ask("ss.init 0 %s %s" % (hexs(key), hexs(hdr)))
    ms.ask("ss.init 1 %s %s" % (hexs(key), hexs(hdr)))
    k2, h2 = rb(rng, 32), rb(rng, 24)
    ms.ask("ss.init 2 %s %s" % (hexs(k2), hexs(h2)))        # foreign stream
    if rng.random() < 0.5:
        k = rng.randrange(0, 5)
        ctr = ((1 << 32) - k) % (1 << 32)
        c = ctr.to_bytes(4, "little")
        ms.ask("ss.setctr 0 %s" % hexs(c))
        ms.ask("ss.setctr 1 %s" % hexs(c))
        stats["near_wrap_histories"] = stats.get("near_wrap_histories", 0) + 1
    queue = []      # items: ("chunk", bytes, ad, m, tag) or ("rekey",)
    consumed = []

    def expect(resp, ok, what):
        rc = resp.split(" ")[0]
        if (rc == "0") != ok:
            raise vcore.BrokenCheck("model violates the property it is proved to have (%s): %s" % (what, resp[:120]))

    for _ in range(depth):
        a = rng.random()
        if a < 0.35 or not queue:
            tag = rng.choice([0, 0, 0, 1, 2, 3, 3, rng.randrange(256)])
            m = rb(rng, rng.choice(LENS))
            ad = rb(rng, rng.choice([0, 0, 1, 15, 16, 17, 40]))
            if rng.random() < 0.25:
                r = ms.ask("ss.pushx 0 %d %s %s %d" % (tag, hexs(m), hexs(ad), rng.choice([1, 3]) if not m else 2))
                stats["optional_pointer_pushes"] = stats.get("optional_pointer_pushes", 0) + 1
            else:
                r = ms.ask("ss.push 0 %d %s %s" % (tag, hexs(m), hexs(ad)))
            chunk = bytes.fromhex(r.split(" ")[1])
            queue.append(("chunk", chunk, ad, m, tag))
            stats["pushes"] = stats.get("pushes", 0) + 1
        elif a < 0.42:
            ms.ask("ss.rekey 0")
            queue.append(("rekey",))
            stats["explicit_rekeys"] = stats.get("explicit_rekeys", 0) + 1
        elif a < 0.72:
            it = queue.pop(0)
            if it[0] == "rekey":
                ms.ask("ss.rekey 1")
            else:
                ln, fl = pull_line(rng, stats, 1, it[1], it[2])
                r = ms.ask(ln)
                expect(r, True, "genuine pull")
                f = r.split(" ")
                if f[3] != hexs(it[3]) or (f[2] != "x" and int(f[2]) != it[4]):
                    raise vcore.BrokenCheck("model returned a different message/tag than pushed")
                consumed.append(it)
                stats["genuine_pulls"] = stats.get("genuine_pulls", 0) + 1
        else:
            # forged pull against the receiver: must fail and leave the state unchanged
            head = next((q for q in queue if q[0] == "chunk"), None)
            kind = rng.choice(["replay", "skip", "trunc", "flip", "wrongad", "foreign", "extend", "swap"])
            forged = None
            if kind == "replay" and consumed:
                c = rng.choice(consumed)
                forged = (c[1], c[2])
            elif kind in ("skip", "swap"):
                chunks = [q for q in queue if q[0] == "chunk"]
                if len(chunks) >= 2 and queue[0][0] == "chunk":
                    forged = (chunks[1][1], chunks[1][2])
            elif kind == "trunc" and head and queue[0][0] == "chunk":
                n = rng.randrange(0, len(head[1]))
                forged = (head[1][:n], head[2])
            elif kind == "flip" and head and queue[0][0] == "chunk":
                b = bytearray(head[1])
                i = rng.randrange(8 * len(b))
                b[i // 8] ^= 1 << (i % 8)
                forged = (bytes(b), head[2])
            elif kind == "wrongad" and head and queue[0][0] == "chunk":
                ad2 = bytearray(head[2] or b"\x00")
                ad2[rng.randrange(len(ad2))] ^= 0x01
                forged = (head[1], bytes(ad2) if head[2] else b"\x00")
            elif kind == "extend" and head and queue[0][0] == "chunk":
                forged = (head[1] + rb(rng, rng.randrange(1, 18)), head[2])
            elif kind == "foreign":
                r = ms.ask("ss.push 2 0 %s -" % hexs(rb(rng, rng.choice(LENS))))
                forged = (bytes.fromhex(r.split(" ")[1]), b"")
            if forged is not None:
                r = ms.ask(pull_line(rng, stats, 1, forged[0], forged[1])[0])
                expect(r, False, "forged pull (%s)" % kind)
                stats["forged_" + kind] = stats.get("forged_" + kind, 0) + 1
    # drain: everything still queued must be delivered in order
    for it in queue:
        if it[0] == "rekey":
            ms.ask("ss.rekey 1")
        else:
            r = ms.ask(pull_line(rng, stats, 1, it[1], it[2])[0])
            expect(r, True, "genuine pull (drain)")
            stats["genuine_pulls"] = stats.get("genuine_pulls", 0) + 1


def gen(ctx, tier, rng):
    global MODEL_OUT
    ok, out = vcore.lean_build(ctx)
    ms = vcore.ModelSession()
    stats = {}
    nh, depth = (60, 40) if tier == "quick" else (120, 400)
    for _ in range(nh):
        history(ms, rng, depth, stats)
    # dense single-chunk sweep: every truncation length and every bit flip of short chunks
    for mlen in (0, 1, 16):
        key, hdr = rb(rng, 32), rb(rng, 24)
        ms.ask("ss.init 0 %s %s" % (hexs(key), hexs(hdr)))
        ms.ask("ss.init 1 %s %s" % (hexs(key), hexs(hdr)))
        m, ad = rb(rng, mlen), rb(rng, 5)
        chunk = bytes.fromhex(ms.ask("ss.push 0 1 %s %s" % (hexs(m), hexs(ad))).split(" ")[1])
        for n in range(len(chunk)):
            ms.ask("ss.pull 1 %s %s" % (hexs(chunk[:n]), hexs(ad)))
        for i in range(8 * len(chunk)):
            b = bytearray(chunk)
            b[i // 8] ^= 1 << (i % 8)
            r = ms.ask("ss.pull 1 %s %s" % (hexs(bytes(b)), hexs(ad)))
            if r.split(" ")[0] == "0":
                raise vcore.BrokenCheck("model accepted a bit-flipped chunk")
        for x in vcore.tag_mutations(rng, chunk[-16:]):      # same delta at every pair of authenticator positions, complement, rotations, swaps
            r = ms.ask("ss.pull 1 %s %s" % (hexs(chunk[:-16] + x), hexs(ad)))
            if r.split(" ")[0] == "0":
                raise vcore.BrokenCheck("model accepted a chunk with an altered authenticator")
        ms.ask("ss.pull 1 %s %s" % (hexs(chunk), hexs(ad)))
    ms.close()
    MODEL_OUT = ms.outs
    ctx.stats["history_stats"] = stats
    ctx.stats["histories"] = nh
    return ms.lines
