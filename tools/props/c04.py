"""C04 — hashes, MACs and KDFs match their specifications for any input and chunking (DESIGN §3.4)."""
import vcore
from vcore import hexs

ID = "C04"
LEVEL = "proof"
_T = ["md_chunks", "sha256_chunks", "sha512_chunks", "blake2b_chunks", "generichash_spec", "kdf_blake2b_spec",
      "poly1305_chunks", "hmac_chunks", "hkdf_expand_eq_rfc", "chunkLaw_sha256", "chunkLaw_sha512", "hmacsha256_chunks",
      "hmacsha512_chunks", "hkdf_sha256_expand", "hkdf_sha512_expand"]
THEOREMS = vcore.theorems_in("SodiumModel/Properties/C04.lean", _T, "Sodium.C04")
THEOREMS = THEOREMS + vcore.theorems_in("SodiumModel/Properties/C04Poly.lean", ['init_spec', 'init_inv', 'blocks_spec', 'blocks_no_overflow', 'finish_spec', 'donna64_eq_abstract', 'donna64_mac_eq_spec', 'donna64_mac_oneshot'], "Sodium.C04Poly")
IMPORTS = ["SodiumModel.Properties.C04"] if THEOREMS else ["SodiumModel.Model.Hash"]
THEOREMS = THEOREMS + vcore.theorems_in("SodiumModel/Properties/C04Compress.lean", ['sha256_Krnd_eq_spec', 'sha256_RNDr_eq_spec_round', 'sha256_MSCH_eq_spec_schedule', 'sha256_transform_eq_spec', 'sha256_compress_fn_eq_spec', 'sha512_Krnd_eq_spec', 'sha512_RNDr_eq_spec_round', 'sha512_MSCH_eq_spec_schedule', 'sha512_transform_eq_spec', 'sha512_compress_fn_eq_spec', 'blake2b_IV_eq_spec', 'blake2b_sigma_eq_spec', 'blake2b_G_eq_spec', 'blake2b_ROUND_eq_spec', 'blake2b_compress_ref_eq_spec', 'blake2b_compress_fn_eq_spec', 'blake2b_increment_counter_eq', 'blake2b_increment_counter_ti_eq', 'blake2b_set_lastblock_eq', 'siphash_SIPROUND_eq_spec', 'siphash_tail_eq_spec', 'siphash24_eq_spec', 'siphashx24_eq_spec', 'siphash24_fn_eq_spec', 'siphashx24_fn_eq_spec', 'chunkLaw_sha256_ref', 'chunkLaw_sha512_ref', 'sha256_ref_chunks', 'sha512_ref_chunks', 'blake2b_ref_chunks', 'generichash_ref_spec', 'kdf_blake2b_ref_spec', 'hmacsha256_ref_chunks', 'hmacsha512_ref_chunks', 'hkdf_sha256_ref_expand', 'hkdf_sha512_ref_expand'], "Sodium.C04Compress")
IMPORTS = IMPORTS + ["SodiumModel.Properties.C04Poly", "SodiumModel.Properties.C04Compress"]
_SIMD = ['avx2_ROT32_eq_rotr', 'avx2_ROT24_eq_rotr', 'avx2_ROT16_eq_rotr', 'avx2_ROT63_eq_rotr', 'sse_roti_eq_rotr', 'avx2_load_msg_eq_sigma', 'ssse3_load_msg_eq_sigma',
         'sse41_load_msg_eq_sigma', 'message_words_eq_spec', 'avx2_G1_G2_eq_spec_column', 'sse_G1_G2_eq_spec_column', 'avx2_diag_G1_G2_undiag_eq_spec_diagonal',
         'sse_diag_G1_G2_undiag_eq_spec_diagonal', 'avx2_ROUND_eq_spec_round', 'ssse3_ROUND_eq_spec_round', 'sse41_ROUND_eq_spec_round', 'blake2b_compress_avx2_eq_spec',
         'blake2b_compress_ssse3_eq_spec', 'blake2b_compress_sse41_eq_spec', 'blake2b_compress_backends_agree', 'avx2_hF', 'ssse3_hF', 'sse41_hF',
         'blake2b_chunks_of_compress_eq', 'generichash_of_compress_eq', 'kdf_blake2b_of_compress_eq', 'blake2b_avx2_chunks', 'blake2b_ssse3_chunks', 'blake2b_sse41_chunks',
         'generichash_avx2_spec', 'generichash_ssse3_spec', 'generichash_sse41_spec', 'kdf_blake2b_avx2_spec', 'driver_b2Chunks_no_disagree']
THEOREMS = THEOREMS + vcore.theorems_in("SodiumModel/Properties/C04Simd.lean", _SIMD, "Sodium.C04Simd")
IMPORTS = IMPORTS + ["SodiumModel.Properties.C04Simd", "SodiumModel.Properties.C04PolySse2"]
# poly1305_sse2.c (the Poly1305 this host selects): two-lane 26-bit-limb Horner with r^2 / r^4, buffering, final combination = spec MAC for every key, message, chunking and prior state contents
THEOREMS = THEOREMS + vcore.theorems_in("SodiumModel/Properties/C04PolySse2.lean", ['init_ext_spec', 'r_square_no_overflow', 'r_square_spec', 'r_limbs_spec', 'multipliers_ok', 'main_loop_lane', 'main_loop_no_overflow', 'reduce_no_overflow', 'main_loop_body_eq', 'tail_lane', 'first_block_lane', 'load_store_H', 'final_mul_spec', 'final_reduce_spec', 'pad_add_spec', 'blocks_horner_invariant', 'main_loop_horner', 'block_copy31_spec', 'last_block_spec', 'finish_ext_stages', 'finish_ext_spec', 'init_invariant', 'update_invariant', 'final_of_invariant', 'sse2_mac_eq_spec', 'sse2_mac_chunks', 'sse2_chunks_eq_oneshot', 'sse2_mac_junk_independent', 'sse2_eq_donna64', 'sse2_verify_spec', 'sse2_verify_accepts', 'sse2_mac_length'], "Sodium.C04PolySse2")


def tie_b(ctx):
    """the SIMD BLAKE2b model: (1) its trusted intrinsic semantics are re-validated against this CPU, (2) the 144 message-load macros are regenerated from the
    headers and the proofs re-checked against them if the text changed, (3) the hand-transcribed compress-*.c/h files are pinned by fingerprint"""
    import subprocess, sys, os
    vcore.simd_check(ctx, "blake2b", "simd_vectors.c", ["-msse2", "-mssse3", "-msse4.1", "-mavx2"], "SimdCheck.lean", via_stdin=False)
    vcore.simd_check_script(ctx, "poly1305sse2")
    src = os.path.join(vcore.REPO, "src", "libsodium", "crypto_generichash", "blake2b", "ref")
    gen = lambda out: subprocess.run([sys.executable, os.path.join(vcore.VERIF, "tools", "gen_b2load.py"), src, out], capture_output=True, text=True)
    r = vcore.tie_b_regen(ctx, "BLAKE2b SIMD message loads (tools/gen_b2load.py)", gen, "SodiumModel/Model/Blake2bSimdLoad.lean", "SodiumModel.Properties.C04Simd",
                          ["Sodium.C04Simd.blake2b_compress_avx2_eq_spec", "Sodium.C04Simd.blake2b_compress_ssse3_eq_spec", "Sodium.C04Simd.blake2b_compress_sse41_eq_spec"],
                          pinned_re=r"(blake2b-compress-[a-z0-9]+\.[ch]) ([0-9a-f]{24})")
    ctx.log("Tie B: BLAKE2b SIMD load macros regenerated from the headers, %s" % ("identical / proofs hold" if not r else "CHANGED: %s" % [x[0] for x in r]))
    return r


FINGERPRINTS = "C04"     # Tie B: pinned source text of the hand-transcribed limb code (tools/fingerprint.py)
RULE = ("every message length 0..1100 one-shot; chunk lists: all 2-way splits at block boundaries +-1, 3-way splits, random splits with "
        "empty chunks, byte-at-a-time; BLAKE2b every key length 0..64 and output length 1..64 (+ out of range), salt/personal; HMAC keys "
        "0..200 bytes; HKDF every output length around multiples of the hash length and the 255-block limit; Poly1305 adversarial inputs "
        "(all-ff blocks, maximal clamped r, accumulators solved to land on 2^130-5 +- k, 2^130-1, 2^128 +- k); backends via CPU masks and build variants")
ASSUMPTIONS = ["compression functions (SHA-256/512 transform, BLAKE2b F, SipHash rounds) and the Poly1305 limb arithmetic are translation-validated against the executable specification, not proved",
               "sha256_chunks / sha512_chunks carry the hypothesis that the bit length fits the 64/128-bit counter"]
P1305 = (1 << 130) - 5


def configs(tier):
    if tier == "quick":
        # BLAKE2b has four compression backends (AVX2, SSE4.1, SSSE3, reference): one mask for each
        return [("native", "", "plain"), ("native", "avx512f,avx2", "plain"), ("native", "avx512f,avx2,avx1,sse41", "plain"), ("native", vcore.ALL_OFF, "plain"), ("noti", "", "plain"),
                ("native", "", "plain", {"HX_ALIGN": "5"})]     # every buffer 5 bytes past a malloc boundary
    out = []
    for v in vcore.VARIANTS:
        for m in vcore.MASK_CHAIN:
            out.append((v, m, "plain"))
    return out


def rb(rng, n):
    return bytes(rng.getrandbits(8) for _ in range(n))


def splits(rng, m, W, full):
    """chunk lists for message m around block size W"""
    n = len(m)
    out = []
    cuts = sorted({c for c in (0, 1, W - 1, W, W + 1, 2 * W - 1, 2 * W, 2 * W + 1, n - 1, n, n // 2) if 0 <= c <= n})
    for c in cuts:
        out.append([m[:c], m[c:]])
    for _ in range(3 if not full else 10):
        k = rng.randrange(2, 7)
        ps = sorted(rng.randrange(0, n + 1) for _ in range(k))
        ch, prev = [], 0
        for p in ps:
            ch.append(m[prev:p])
            prev = p
        ch.append(m[prev:])
        if rng.random() < 0.5:
            ch.insert(rng.randrange(len(ch) + 1), b"")
        out.append(ch)
    if n <= 200:
        out.append([m[i:i + 1] for i in range(n)] or [b""])
    return out


def poly_adversarial(rng):
    """(key, msg) pairs whose accumulator hits values near the modulus before finish"""
    res = []
    rmax = 0x0ffffffc0ffffffc0ffffffc0fffffff
    for r in (rmax, 0x0ffffffc0ffffffc0ffffffc0ffffffc, 1, 2, 0x0ffffffc00000000000000000fffffff, rng.getrandbits(128) & rmax):
        if r == 0:
            continue
        for s in (0, (1 << 128) - 1, rng.getrandbits(128)):
            key = r.to_bytes(16, "little") + s.to_bytes(16, "little")
            res.append((key, b"\xff" * 16))
            res.append((key, b"\xff" * 64))
            res.append((key, b"\xff" * 47))
            # one-block message solving (blk + 2^128) * r = target (mod p)
            try:
                rinv = pow(r, -1, P1305)
            except ValueError:
                continue
            for target in [P1305 - 1, P1305 - 2, P1305 - 5, 0, 1, 4, (1 << 128) - 1, (1 << 128), (1 << 128) + 1, (1 << 129) + 3, (1 << 130) - 6, (1 << 130) - 7]:
                t = target % P1305
                v = (t * rinv - (1 << 128)) % P1305
                if v < (1 << 128):
                    res.append((key, v.to_bytes(16, "little")))
                    res.append((key, v.to_bytes(16, "little") + b"\x00" * 16))
    return res


def gen(ctx, tier, rng):
    L = []
    full = tier == "thorough"
    K32 = lambda: hexs(rb(rng, 32))
    for n in range(0, 1101):
        if not full and n > 300 and n % 3:
            continue
        m = rb(rng, n)
        L.append("hash.sha256 %s" % hexs(m))
        L.append("hash.sha512 %s" % hexs(m))
        L.append("onetimeauth %s %s" % (K32(), hexs(m)))
        L.append("generichash %d %s N N %s" % (rng.choice([16, 32, 64, rng.randrange(1, 65)]), hexs(rb(rng, rng.choice([0, 0, 16, 32, 64, rng.randrange(0, 65)]))), hexs(m)))
        if n % 2 == 0 or full:
            L.append("auth.hmacsha256 %s %s" % (K32(), hexs(m)))
            L.append("auth.hmacsha512 %s %s" % (K32(), hexs(m)))
            L.append("auth.hmacsha512256 %s %s" % (K32(), hexs(m)))
            L.append("shorthash 24 %s %s" % (hexs(rb(rng, 16)), hexs(m)))
            L.append("shorthash x24 %s %s" % (hexs(rb(rng, 16)), hexs(m)))
    # long messages (several SIMD batches, more than 256 blocks)
    for n in [4095, 4096, 4097, 8192, 8193, 16385, 33000] + ([65537, 131073] if full else []):
        m = rb(rng, n)
        L.append("hash.sha256 %s" % hexs(m)); L.append("hash.sha512 %s" % hexs(m)); L.append("onetimeauth %s %s" % (K32(), hexs(m)))
        L.append("generichash 64 %s N N %s" % (hexs(rb(rng, 32)), hexs(m)))
        L.append("auth.hmacsha256 %s %s" % (K32(), hexs(m))); L.append("auth.hmacsha512 %s %s" % (K32(), hexs(m)))
        L.append("shorthash 24 %s %s" % (hexs(rb(rng, 16)), hexs(m)))
        c1 = rng.randrange(1, n)
        L.append("onetimeauth %s %s %s" % (K32(), hexs(m[:c1]), hexs(m[c1:]))); L.append("hash.sha512 %s %s" % (hexs(m[:c1]), hexs(m[c1:])))
        L.append("generichash 32 %s N N %s %s" % (hexs(rb(rng, 16)), hexs(m[:c1]), hexs(m[c1:])))
    # chunked forms
    for n in list(range(0, 300, 1 if full else 3)) + [383, 384, 385, 511, 512, 513, 640, 1023, 1024, 1025]:
        m = rb(rng, n)
        for ch in splits(rng, m, 64, full):
            L.append("hash.sha256 " + " ".join(hexs(c) for c in ch))
            L.append("auth.hmacsha256 %s %s" % (hexs(rb(rng, rng.choice([0, 1, 32, 63, 64, 65, 100, 200]))), " ".join(hexs(c) for c in ch)))
            L.append("kdf.hkdf256.extract %s %s" % (hexs(rb(rng, rng.choice([0, 16, 32, 80]))), " ".join(hexs(c) for c in ch)))
        for ch in splits(rng, m, 128, full):
            L.append("hash.sha512 " + " ".join(hexs(c) for c in ch))
            L.append("auth.hmacsha512 %s %s" % (hexs(rb(rng, rng.choice([0, 1, 32, 127, 128, 129, 200]))), " ".join(hexs(c) for c in ch)))
            L.append("auth.hmacsha512256 %s %s" % (hexs(rb(rng, rng.choice([0, 32, 128, 129]))), " ".join(hexs(c) for c in ch)))
            L.append("kdf.hkdf512.extract %s %s" % (hexs(rb(rng, rng.choice([0, 16, 64, 150]))), " ".join(hexs(c) for c in ch)))
            sp = rng.choice(["N", hexs(rb(rng, 16))])
            pp = rng.choice(["N", hexs(rb(rng, 16))])
            L.append("generichash %d %s %s %s %s" % (rng.randrange(1, 65), hexs(rb(rng, rng.choice([0, 1, 32, 64]))), sp, pp, " ".join(hexs(c) for c in ch)))
        for ch in splits(rng, m, 16, full):
            L.append("onetimeauth %s %s" % (K32(), " ".join(hexs(c) for c in ch)))
    # BLAKE2b: every key length and output length, out-of-range
    for kl in range(0, 66):
        for ol in ([1, 16, 32, 63, 64] if not full else range(1, 65)):
            L.append("generichash %d %s N N %s" % (ol, hexs(rb(rng, kl)), hexs(rb(rng, rng.choice([0, 1, 127, 128, 129, 256, 257])))))
    for ol in (0, 65, 66, 100):
        L.append("generichash %d - N N 616263" % ol)
    # out-of-range lengths of ANY size are refused by every BLAKE2b entry point (the internal interfaces take 8-bit lengths: 256 + k must not alias k)
    for ol in [0, 1, 16, 64, 65, 66, 127, 128, 255, 256, 257, 272, 288, 320, 321, 512, 576, 1056, 65535, 65536, 65537, 65568, 65600, (1 << 24) - 1, (1 << 24)] + [256 * rng.randrange(1, 1000) + rng.randrange(0, 80) for _ in range(20)]:
        for kl in (0, 32):
            L.append("generichash.lens %d %d" % (ol, kl))
    for kl in [0, 1, 64, 65, 128, 255, 256, 257, 288, 320, 321, 512, 65536, 65568, 65601] + [256 * rng.randrange(1, 1000) + rng.randrange(0, 80) for _ in range(20)]:
        for ol in (32, 64):
            L.append("generichash.lens %d %d" % (ol, kl))
    # HKDF expand: every output length around block multiples, the limit, contexts
    for ol in sorted(set(list(range(0, 140)) + [255 * 32 - 1, 255 * 32, 255 * 32 + 1, 8000, 255 * 64])):
        L.append("kdf.hkdf256.expand %d %s %s" % (ol, hexs(rb(rng, rng.choice([0, 5, 40]))), hexs(rb(rng, 32))))
    for ol in sorted(set(list(range(0, 200, 3)) + [63, 64, 65, 127, 128, 129, 255 * 64 - 1, 255 * 64, 255 * 64 + 1])):
        L.append("kdf.hkdf512.expand %d %s %s" % (ol, hexs(rb(rng, rng.choice([0, 5, 40]))), hexs(rb(rng, 64))))
    for n in list(range(0, 80)) + [255, 256, 257, 272, 288, 320, 321, 512 + 32, 65536 + 32, 65536 + 64, (1 << 17)]:
        L.append("kdf.blake2b %d %d %s %s" % (n, rng.choice([0, 1, rng.getrandbits(64), (1 << 64) - 1]), hexs(rb(rng, 8)), K32()))
    # Poly1305 adversarial
    for key, msg in poly_adversarial(rng):
        L.append("onetimeauth %s %s" % (hexs(key), hexs(msg)))
        if len(msg) > 16:
            L.append("onetimeauth %s %s %s" % (hexs(key), hexs(msg[:7]), hexs(msg[7:])))
    # verify: correct tag, every single-bit flip of the tag
    for alg, tl in (("hmacsha256", 32), ("hmacsha512", 64), ("hmacsha512256", 32), ("poly1305", 16)):
        for _ in range(2):
            key, msg = rb(rng, 32), rb(rng, rng.randrange(0, 100))
            L.append(("TAG", alg, tl, key, msg))
    return L


def post_model(ctx, lines, run_model):
    """second stage: verification ops need the correct tag, which we obtain from the model's own MAC op"""
    out = []
    pend = [l for l in lines if isinstance(l, tuple)]
    base = [l for l in lines if not isinstance(l, tuple)]
    if pend:
        q = []
        for (_, alg, tl, key, msg) in pend:
            op = {"hmacsha256": "auth.hmacsha256", "hmacsha512": "auth.hmacsha512", "hmacsha512256": "auth.hmacsha512256", "poly1305": "onetimeauth"}[alg]
            q.append("%s %s %s" % (op, hexs(key), hexs(msg)))
        tags = run_model(q)
        for (_, alg, tl, key, msg), tag in zip(pend, tags):
            t = bytes.fromhex(tag)
            out.append("auth.verify %s %s %s %s" % (alg, hexs(t), hexs(msg), hexs(key)))
            for bit in range(8 * tl):
                f = bytearray(t)
                f[bit // 8] ^= 1 << (bit % 8)
                out.append("auth.verify %s %s %s %s" % (alg, hexs(bytes(f)), hexs(msg), hexs(key)))
            out.append("auth.verify %s %s %s %s" % (alg, hexs(t), hexs(msg + b"x"), hexs(key)))
    return base + out
