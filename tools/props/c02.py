"""C02 — forged or altered ciphertexts are rejected and release no plaintext (DESIGN §3.2)."""
import vcore
from vcore import hexs

ID = "C02"
LEVEL = "proof"
_T = ["decrypt_ok_iff_tag", "tag_change_rejected", "short_rejected", "failure_output", "secretbox_failure_output", "rc_values",
      "macData_injective", "modification_rejected_partial"]
THEOREMS = vcore.theorems_in("SodiumModel/Properties/C02.lean", _T, "Sodium.C02")
IMPORTS = ["SodiumModel.Properties.C02"] if THEOREMS else ["SodiumModel.Model.Aead"]
# AEGIS decryption in the C's structure: rc = 0 iff the tag matches, on failure the output is zeroed / untouched, short input rejected (for every length and backend conforming to the block interface)
THEOREMS = THEOREMS + vcore.theorems_in("SodiumModel/Properties/C01Aegis.lean", ['aegis128l_decrypt_detached_eq', 'aegis256_decrypt_detached_eq', 'aegis128l_decrypt_detached_32', 'aegis256_decrypt_detached_32', 'decrypt_detached_failure_output', 'decrypt_detached_bad_maclen', 'aegis128l_decrypt_detached_rc', 'aegis256_decrypt_detached_rc', 'crypto_aead_aegis128l_decrypt_detached_eq', 'crypto_aead_aegis256_decrypt_detached_eq', 'crypto_aead_decrypt_short', 'crypto_aead_decrypt_combined', 'crypto_aead_aegis128l_decrypt_eq', 'crypto_aead_aegis256_decrypt_eq'], "Sodium.C01Aegis")
IMPORTS = IMPORTS + ["SodiumModel.Properties.C01Aegis"]
THEOREMS = THEOREMS + vcore.theorems_in("SodiumModel/Properties/C01Gcm.lean", ['decrypt_generic_is_ctr_ghash', 'decrypt_detached_is_gcm', 'decrypt_is_gcm', 'decrypt_short_input', 'decrypt_beyond_limits'], "Sodium.C01Gcm")
IMPORTS = IMPORTS + ["SodiumModel.Properties.C01Gcm"]
FINGERPRINTS = "C01"
RULE = ("from valid (key, nonce, ad, ciphertext, tag) tuples of every message length 0..70 (+ sampled larger) for the six AEADs and both secretbox "
        "variants: every single-bit flip of the tag, bit flips at every position of ciphertext / ad / nonce / key, every truncation length, appended "
        "suffixes 1..17, with an output buffer (prefilled sentinel, compared in full) and in NULL-output verify-only mode; the generator asserts on the "
        "model that every forged input is rejected")
ASSUMPTIONS = ["'a modified ciphertext/ad/nonce/key is rejected' beyond the exact tag comparison is MAC unforgeability: stated as modification_rejected_partial with the hypothesis that the MAC differs, exercised here by bit flips at every position"]
AEADS = [("chachapoly", 32, 8, 16), ("chachapoly_ietf", 32, 12, 16), ("xchachapoly", 32, 24, 16), ("aes256gcm", 32, 12, 16), ("aegis128l", 16, 16, 32), ("aegis256", 32, 32, 32)]


def configs(tier):
    if tier == "quick":
        return [("native", "", "plain"), ("native", vcore.ALL_OFF, "plain"), ("native", "", "plain", {"HX_ALIGN": "5"})]
    return [(v, m, "plain") for v in vcore.VARIANTS for m in ("", "avx512f,avx2", "avx512f,avx2,avx1", vcore.ALL_OFF)]


def unavailable_ok(ctx, cfg, line):
    return line.startswith("aead.aes256gcm") and (cfg[0] != "native" or any(t in (cfg[1] or "") for t in ("aesni", "pclmul", "avx1")))


def rb(rng, n):
    return bytes(rng.getrandbits(8) for _ in range(n))


def flips(rng, b, dense):
    n = 8 * len(b)
    if dense and n > 1024:      # long fields: one bit in every byte
        idx = [8 * i + rng.randrange(8) for i in range(n // 8)]
    else:
        idx = range(n) if dense or n <= 64 else sorted(set(rng.sample(range(n), 24) + [0, n - 1]))
    for i in idx:
        x = bytearray(b)
        x[i // 8] ^= 1 << (i % 8)
        yield bytes(x)


def gen(ctx, tier, rng):
    full = tier == "thorough"
    T = []
    lens = list(range(0, 71)) if full else [0, 1, 2, 15, 16, 17, 31, 32, 33, 63, 64, 65, 70]
    lens += [127, 300] if full else []
    for n in lens:
        for (name, kb, nb, ab) in AEADS:
            T.append(("aead", name, rb(rng, n), rb(rng, rng.choice([0, 5, 16, 21])), rb(rng, nb), rb(rng, kb), ab))
    # long associated data / long ciphertexts: flips must be caught at every position of every internal aggregation width
    for (name, kb, nb, ab) in AEADS:
        for (n, adl) in ((3, 224), (3, 225), (0, 448), (17, 500), (224, 0), (240, 7), (500, 300)) + (((1000, 1000),) if full else ()):
            T.append(("aead", name, rb(rng, n), rb(rng, adl), rb(rng, nb), rb(rng, kb), ab))
        for v in ("xsalsa", "xchacha"):
            T.append(("sb", v, rb(rng, n), b"", rb(rng, 24), rb(rng, 32), 16))
    return T


def post_model(ctx, T, run_model):
    rng = __import__("random").Random(ctx.seed + 7)
    full = ctx.tier == "thorough"
    q = []
    for t in T:
        if t[0] == "aead":
            q.append("aead.%s.enc %s %s %s %s" % (t[1], hexs(t[2]), hexs(t[3]), hexs(t[4]), hexs(t[5])))
        else:
            q.append("secretbox.%s.enc %s %s %s" % (t[1], hexs(t[2]), hexs(t[4]), hexs(t[5])))
    outs = run_model(q)
    L = []
    nforged = 0
    for t, o in zip(T, outs):
        cs, macs = o.split(" ")
        c = b"" if cs == "-" else bytes.fromhex(cs)
        mac = bytes.fromhex(macs)
        kind, name, m, ad, n, k, ab = t
        dense = len(m) <= 20 or full or len(ad) >= 200 or len(m) >= 200

        def dec(w, c_, mac_, ad_, n_, k_):
            if kind == "aead":
                return "aead.%s.dec %d %s %s %s %s %s" % (name, w, hexs(c_), hexs(mac_), hexs(ad_), hexs(n_), hexs(k_))
            return "secretbox.%s.dec %d %s %s %s %s" % (name, w, hexs(c_), hexs(mac_), hexs(n_), hexs(k_))

        def decc(w, cm_, ad_, n_, k_):
            if kind == "aead":
                return "aead.%s.decc %d %s %s %s %s" % (name, w, hexs(cm_), hexs(ad_), hexs(n_), hexs(k_))
            return "secretbox.%s.decc %d %s %s %s" % (name, w, hexs(cm_), hexs(n_), hexs(k_))

        comb = (c + mac) if kind == "aead" else (mac + c)
        L.append(dec(1, c, mac, ad, n, k))          # genuine, both modes
        L.append(dec(0, c, mac, ad, n, k))
        L.append(decc(1, comb, ad, n, k))
        forged = []
        for x in flips(rng, mac, True):              # every bit of the tag
            forged.append(dec(1, c, x, ad, n, k))
            if rng.random() < 0.1:
                forged.append(dec(0, c, x, ad, n, k))
        # multi-position tag changes: the same delta at two positions (all pairs 16 and 32 apart — the lane structure of the vectorised
        # comparison, C14 verify_n_sse2 — and random pairs), complement, byte rotation, swapped halves
        if len(mac) >= 32 or len(m) <= 2:
            for x in vcore.tag_mutations(rng, mac):      # all position pairs (16-byte tags) / pairs 1, 2, 4, 8, 16, 32 apart, complement, rotations, swaps
                forged.append(dec(rng.choice([1, 1, 0]), c, x, ad, n, k))
        for x in flips(rng, c, dense):
            forged.append(dec(rng.choice([0, 1, 1]), x, mac, ad, n, k))
        if kind == "aead":
            for x in flips(rng, ad, dense):
                forged.append(dec(1, c, mac, x, n, k))
            forged.append(dec(1, c, mac, ad + b"\x00", n, k))
            if ad:
                forged.append(dec(1, c, mac, ad[:-1], n, k))
        for x in flips(rng, n, dense):
            forged.append(dec(1, c, mac, ad, x, k))
        for x in flips(rng, k, dense):
            forged.append(dec(1, c, mac, ad, n, x))
        for cut in range(len(comb)):                 # every truncation of the combined form
            forged.append(decc(rng.choice([0, 1, 1]), comb[:cut], ad, n, k))
        for ext in list(range(1, 18)):
            forged.append(decc(1, comb + rb(rng, ext), ad, n, k))
        nforged += len(forged)
        L += forged
    # ---- the other API families the property names: sign_open, auth / onetimeauth verify, box open
    LL = 2 ** 252 + 27742317777372353535851937790883648493
    extra_f = []
    for mlen in ((0, 1, 32, 77) if not full else (0, 1, 15, 32, 33, 64, 77, 128, 200)):
        seed = rb(rng, 32); m = rb(rng, mlen)
        pk, sk = run_model(["sign.seed_keypair %s" % hexs(seed)])[0].split(" ")
        sig = bytes.fromhex(run_model(["sign.detached %s %s" % (hexs(m), sk)])[0])
        sm = sig + m
        L.append("sign.open %s %s" % (hexs(sm), pk))                      # genuine
        for i in range(len(sm)):                                          # one bit in every byte, every bit of the two scalar top bytes
            for bit in (range(8) if i in (31, 62, 63) or full else [rng.randrange(8)]):
                x = bytearray(sm); x[i] ^= 1 << bit
                extra_f.append("sign.open %s %s" % (hexs(bytes(x)), pk))
        S = int.from_bytes(sig[32:], "little")
        for k in range(1, 16):                                            # S + k*L: same residue, different encoding
            if S + k * LL < 2 ** 256:
                extra_f.append("sign.open %s %s" % (hexs(sig[:32] + (S + k * LL).to_bytes(32, "little") + m), pk))
        for cut in sorted(set([0, 1, 31, 32, 63, 64, len(sm) - 1]) & set(range(len(sm)))):
            extra_f.append("sign.open %s %s" % (hexs(sm[:cut]), pk))
        extra_f.append("sign.open %s %s" % (hexs(sm + b"\x00"), pk))
        pkb = bytearray(bytes.fromhex(pk)); pkb[rng.randrange(32)] ^= 1 << rng.randrange(8)
        extra_f.append("sign.open %s %s" % (hexs(sm), hexs(bytes(pkb))))
    for (variant, tl) in (("hmacsha256", 32), ("hmacsha512", 64), ("hmacsha512256", 32), ("poly1305", 16)):
        for mlen in (0, 1, 16, 17, 64, 129):
            k = rb(rng, 32); m = rb(rng, mlen)
            op = {"poly1305": "onetimeauth %s %s" % (hexs(k), hexs(m))}.get(variant, "auth.%s %s %s" % (variant, hexs(k), hexs(m)))
            tag = bytes.fromhex(run_model([op])[0].split(" ")[0])[:tl]
            L.append("auth.verify %s %s %s %s" % (variant, hexs(tag), hexs(m), hexs(k)))
            for i in range(tl):
                x = bytearray(tag); x[i] ^= 1 << rng.randrange(8)
                extra_f.append("auth.verify %s %s %s %s" % (variant, hexs(bytes(x)), hexs(m), hexs(k)))
                for d in (16, 32):
                    if i + d < tl:
                        x = bytearray(tag); dl = 1 << rng.randrange(8); x[i] ^= dl; x[i + d] ^= dl
                        extra_f.append("auth.verify %s %s %s %s" % (variant, hexs(bytes(x)), hexs(m), hexs(k)))
            for x in flips(rng, m, True):
                extra_f.append("auth.verify %s %s %s %s" % (variant, hexs(tag), hexs(x), hexs(k)))
            kx = bytearray(k); kx[rng.randrange(32)] ^= 1 << rng.randrange(8)
            extra_f.append("auth.verify %s %s %s %s" % (variant, hexs(tag), hexs(m), hexs(bytes(kx))))
    for v in ("xsalsa", "xchacha"):
        for mlen in (0, 1, 33):
            sa, sb2 = rb(rng, 32), rb(rng, 32)
            pka, ska = run_model(["box.seed_keypair %s" % hexs(sa)])[0].split(" ")
            pkb2, skb = run_model(["box.seed_keypair %s" % hexs(sb2)])[0].split(" ")
            n = rb(rng, 24); m = rb(rng, mlen)
            c = bytes.fromhex(run_model(["box.easy %s %s %s %s %s" % (v, hexs(m), hexs(n), pkb2, ska)])[0].split(" ")[-1])
            L.append("box.open %s %s %s %s %s" % (v, hexs(c), hexs(n), pka, skb))
            for x in flips(rng, c, True):
                extra_f.append("box.open %s %s %s %s %s" % (v, hexs(x), hexs(n), pka, skb))
            for cut in range(len(c)):
                extra_f.append("box.open %s %s %s %s %s" % (v, hexs(c[:cut]), hexs(n), pka, skb))
            nx = bytearray(n); nx[rng.randrange(24)] ^= 1
            extra_f.append("box.open %s %s %s %s %s" % (v, hexs(c), hexs(bytes(nx)), pka, skb))
    # sealed boxes (crypto_box_seal_open): every bit of the ephemeral-key header, the authenticator and the body; truncations, extension, other recipient
    for mlen in (0, 1, 33, 67):
        sb2, esk, m = rb(rng, 32), rb(rng, 32), rb(rng, mlen)
        pkb2, skb = run_model(["box.seed_keypair %s" % hexs(sb2)])[0].split(" ")
        o = run_model(["rng.gen seal %s %s %s" % (hexs(esk), hexs(m) if m else "-", pkb2)])[0].split(" ")
        if len(o) != 3 or o[1] != "0":
            raise vcore.BrokenCheck("model did not produce a sealed box: %s" % o[:2])
        c = bytes.fromhex(o[2])
        L.append("seal.open %s %s %s" % (hexs(c), pkb2, skb))
        for x in flips(rng, c, True):
            extra_f.append("seal.open %s %s %s" % (hexs(x), pkb2, skb))
        for cut in range(len(c)):
            extra_f.append("seal.open %s %s %s" % (hexs(c[:cut]) if cut else "-", pkb2, skb))
        extra_f.append("seal.open %s %s %s" % (hexs(c + b"\x00"), pkb2, skb))
        for x in vcore.tag_mutations(rng, c[32:48], all_pairs=False):
            extra_f.append("seal.open %s %s %s" % (hexs(c[:32] + x + c[48:]), pkb2, skb))
        pko, sko = run_model(["box.seed_keypair %s" % hexs(rb(rng, 32))])[0].split(" ")
        extra_f.append("seal.open %s %s %s" % (hexs(c), pko, sko))
        extra_f.append("seal.open %s %s %s" % (hexs(c), pkb2, sko))
        pkx = bytearray(bytes.fromhex(pkb2)); pkx[rng.randrange(32)] ^= 1 << rng.randrange(7)
        extra_f.append("seal.open %s %s %s" % (hexs(c), hexs(bytes(pkx)), skb))
    # secretstream: one pushed chunk, then every single-bit change of it (tag byte, body, authenticator), truncations and extension pulled
    # against the SAME puller state (a failed pull leaves the state unchanged, C09), then the genuine chunk, which must still be accepted
    for (mlen, adl) in ((0, 0), (1, 0), (33, 5), (100, 16)):
        key, hdr, m, ad = rb(rng, 32), rb(rng, 24), rb(rng, mlen), rb(rng, adl)
        o = run_model(["ss.init 0 %s %s" % (hexs(key), hexs(hdr)), "ss.push 0 0 %s %s" % (hexs(m), hexs(ad))])[1]
        c = bytes.fromhex(o.split(" ")[1])
        extra_f.append("ss.init 1 %s %s" % (hexs(key), hexs(hdr)))
        for x in flips(rng, c, True):
            extra_f.append("ss.pull 1 %s %s" % (hexs(x), hexs(ad)))
        for cut in range(17, len(c)):
            extra_f.append("ss.pull 1 %s %s" % (hexs(c[:cut]), hexs(ad)))
        extra_f.append("ss.pull 1 %s %s" % (hexs(c + b"\x00"), hexs(ad)))
        for x in vcore.tag_mutations(rng, c[-16:]):                              # multi-position changes of the chunk authenticator (sodium_memcmp in pull)
            extra_f.append("ss.pull 1 %s %s" % (hexs(c[:-16] + x), hexs(ad)))
        if ad:
            for x in flips(rng, ad, True):
                extra_f.append("ss.pull 1 %s %s" % (hexs(c), hexs(x)))
        extra_f.append("ss.pull 1 %s %s" % (hexs(c), hexs(ad)))               # genuine, after all the rejected ones
    L += extra_f
    nforged += len(extra_f)
    ctx.stats["forged_inputs"] = nforged
    ctx.stats["valid_tuples"] = len(T)
    return L


def MODEL_RUN(ctx, lines):
    """the driver is stateless except for the secretstream slots: the ss.* lines keep their order in one process, everything else is spread over processes"""
    ss = [i for i, l in enumerate(lines) if l.startswith("ss.")]
    rest = [i for i, l in enumerate(lines) if not l.startswith("ss.")]
    from concurrent.futures import ThreadPoolExecutor
    with ThreadPoolExecutor(max_workers=2) as ex:
        f1 = ex.submit(vcore.run_model, ctx, [lines[i] for i in ss]) if ss else None
        f2 = ex.submit(vcore.run_model_parallel, ctx, [lines[i] for i in rest])
        o1 = f1.result() if f1 else []
        o2 = f2.result()
    out = [None] * len(lines)
    for i, v in zip(ss, o1):
        out[i] = v
    for i, v in zip(rest, o2):
        out[i] = v
    return out


def predicate(ctx, line, impl, model):
    """the property itself: the model says 'reject' for every forged line; an implementation that returns 0, a non-zero
    length, or bytes other than untouched/filler violates it"""
    f = impl.split(" ")
    m = model.split(" ")
    if line.startswith("ss."):
        if m[0] == "-1" and f[0] == "0":
            return True, "altered secretstream chunk accepted"
        return True, "secretstream pull differs from the model (state or output after a rejected chunk)"
    if line.startswith("auth.verify") and m[0] == "-1":
        return (True, "forged authenticator accepted") if f[0] == "0" else (True, "return code differs from the model")
    if m[0] == "-1":
        if f[0] == "0":
            return True, "forged input accepted (return code 0)"
        if len(f) > 1 and f[1] != "0":
            return True, "failure reported with non-zero message length %s" % f[1]
        if len(f) > 2 and f[2] != m[2]:
            buf = f[2]
            if buf != "-" and len(set(bytes.fromhex(buf))) > 1 and set(bytes.fromhex(buf)) - {0x5c, 0x00, 0xd0}:
                return True, "output buffer after a failed call holds bytes other than the sentinel or a constant filler: possible plaintext release"
            return True, "output buffer after failure differs from the documented untouched/filler pattern"
        return False, "rejected as required"
    return True, "genuine ciphertext not decrypted to the model's (= specification's) plaintext"
