"""C18 — random generation is unbiased, pluggable and fully covers generated secrets (DESIGN §3.18)."""
import os
import vcore
from vcore import hexs

ID = "C18"
LEVEL = "proof"
# theorems of Properties/C18Internal.lean (the internal generator and the dispatch layer, for every history of calls)
_TI = ["inv_init", "inv_step", "inv_run", "chacha20_wf", "random_in_bounds", "random_pop_eq", "pool_words_once", "buf_eq", "buf_chacha20_spec", "erase_nonce_fresh", "random_refill_eq", "buf_ignores_pool", "close_resets", "close_then_buf_reseeds", "stir_requests_32", "stir_first_requests_16_32", "stir_entropy_failure_is_misuse", "stir_unseeded_when_getentropy_unavailable", "fork_is_misuse_not_restir", "random_no_fork_check_with_pool", "hrtime_value", "dispatch_buf_forwards", "dispatch_buf_zero", "dispatch_randombytes_no_limit", "dispatch_uniform_own", "dispatch_uniform_rejection", "dispatch_uniform_step", "dispatch_first_stir_twice", "dispatch_close_keeps_impl"]
_T = ["uniformMin_eq", "uniform_lt", "uniform_first_accepted", "uniform_all_rejected", "uniform_exact", "drg_eq", "drgNonce_ascii",
      "scalar_random_first", "keygen_covers"]
THEOREMS = vcore.theorems_in("SodiumModel/Properties/C18.lean", _T, "Sodium.C18")
IMPORTS = ["SodiumModel.Properties.C18"] if THEOREMS else ["SodiumModel.Model.Random"]
if os.path.exists(os.path.join(vcore.LEAN, "SodiumModel/Properties/C18Internal.lean")):
    THEOREMS = THEOREMS + vcore.theorems_in("SodiumModel/Properties/C18Internal.lean", _TI, "Sodium.C18Internal")
    IMPORTS = IMPORTS + ["SodiumModel.Properties.C18Internal"]
RULE = ("scripted random source installed through randombytes_set_implementation; bounds {0,1,2,3, 2^k +- 1, 2^31 +- 1, 2^32-1, random} x draw scripts "
        "placed at the rejection threshold - 1 / threshold / threshold + 1 and long rejection runs; deterministic generator for every length 0..1100 and "
        "seeds, the 2^38 limit probed through the misuse handler; every generating API (all 27 *_keygen, box/sign/kx keypairs, secretstream init_push, "
        "box_seal, core ed25519/ristretto255 random points and scalars) run on a script: logged request sizes and outputs compared with the model, then "
        "re-run with each consumed byte perturbed (output must change) and with bytes after the consumed prefix perturbed (output must not change)")
ASSUMPTIONS = ["the installed source does not supply its own `uniform` (as the property states)",
               "rngint: RDRAND disabled through SODIUM_VERIF_CPU_DISABLE (its values cannot be scripted); the model covers the configured build "
               "(HAVE_GETENTROPY, HAVE_GETPID, LP64 little endian)",
               "pwhash_str* salts are covered under C08; argon2_hash's raw-output pre-fill under C08/C20"]


def configs(tier):
    if tier == "quick":
        return [("native", "", "plain"), ("native", vcore.ALL_OFF, "plain")]
    return [(v, m, "plain") for v in vcore.VARIANTS for m in ("", vcore.ALL_OFF)]


def rb(rng, n):
    return bytes(rng.getrandbits(8) for _ in range(n))


L_ORDER = (1 << 252) + 27742317777372353535851937790883648493


def gen(ctx, tier, rng):
    L = []
    full = tier == "thorough"
    bounds = [0, 1, 2, 3, 5, 6, 7, 10, 255, 256, 257, 1000, 65535, 65536, 65537, (1 << 31) - 1, 1 << 31, (1 << 31) + 1, (1 << 32) - 1, (1 << 32) - 2, 3000000000]
    bounds += [(1 << k) + d for k in range(2, 32) for d in (-1, 0, 1)]
    bounds += [rng.randrange(2, 1 << 32) for _ in range(40 if not full else 400)]
    for n in bounds:
        if n >= (1 << 32):
            continue
        mn = (1 << 32) % n if n >= 2 else 0
        scripts = [[rng.getrandbits(32)], [mn], [max(mn - 1, 0), mn], [max(mn - 1, 0), 0, mn + 1 if mn + 1 < (1 << 32) else mn], [(1 << 32) - 1], [0, (1 << 32) - 1]]
        # accepted draws at the boundaries of the reduction itself: n-1, n, n+1, 2n-1, 2n, the largest multiple of n, 2^32-1
        if n >= 2:
            for dv in (n - 1, n, n + 1, 2 * n - 1, 2 * n, ((1 << 32) // n) * n - 1, ((1 << 32) // n) * n - n, (1 << 32) - 1):
                if mn <= dv < (1 << 32):
                    scripts.append([dv])
                    if mn > 0:
                        scripts.append([mn - 1, dv])
        if mn > 0:
            run = [rng.randrange(0, mn) for _ in range(rng.choice([3, 17, 60]))]
            scripts.append(run + [rng.randrange(mn, 1 << 32)] + [5])
            scripts.append(run)                      # all rejected: loop must keep drawing (script exhausted)
        for sc in scripts:
            L.append("rng.uniform %d %s" % (n, ",".join(str(x) for x in sc) if sc else "-"))
    for h in (1, 2, 3, 4, 8, 13):
        L.append("rng.uniform.h%d 10 7,3" % h)
        L.append("rng.uniform.h%d 1000003 4294967295,5,12345" % h)
    L.append("rng.uniform 0 -")
    L.append("rng.uniform 1 -")
    for n in (range(0, 1101) if full else list(range(0, 200)) + list(range(200, 1101, 7)) + [1023, 1024, 1025]):
        L.append("rng.drg %d %s" % (n, hexs(rb(rng, 32))))
    # the seed kept inside the output buffer (key-erasure / ratchet form buf_deterministic(state, n, state)): every offset class, lengths across
    # the 64 / 256 / 512-byte batch boundaries of the stream backends
    for n in [32, 33, 63, 64, 65, 96, 127, 128, 255, 256, 257, 300, 511, 512, 513, 600, 1100]:
        for off in sorted(set([0, 1, 16, 31, 32, 33, n // 2, n - 64, n - 33, n - 32])):
            if 0 <= off and off + 32 <= n:
                L.append("rng.drg.alias %d %s %d" % (n, hexs(rb(rng, 32)), off))
    for size in [(1 << 38) + d for d in (1, 2, 64, 65)] + [1 << 39, (1 << 64) - 1]:
        L.append("rng.drg_guard %d" % size)
    # generating APIs: base script, every consumed byte perturbed, bytes beyond the consumed prefix perturbed
    apis = [("keygen16", 16, []), ("keygen32", 32, []), ("keygen64", 64, []), ("box_keypair", 32, []), ("sign_keypair", 32, []), ("kx_keypair", 32, []),
            ("ss_init_push", 24, [hexs(rb(rng, 32))]), ("seal", 32, [hexs(rb(rng, 33)), None]), ("ed25519_random", 32, []), ("ristretto_random", 64, [])]
    for (api, n, extra) in apis:
        for _ in range(2 if not full else 10):
            script = rb(rng, n + 8)
            ex = list(extra)
            if api == "seal":
                ex[1] = hexs(rb(rng, 32))
            tail = (" " + " ".join(ex)) if ex else ""
            L.append("rng.gen %s %s%s" % (api, hexs(script), tail))
            for i in range(n + 8):
                s2 = bytearray(script)
                s2[i] ^= 1 << rng.randrange(8)
                L.append("rng.gen %s %s%s" % (api, hexs(bytes(s2)), tail))
            for h in (1, 2, 3, 4, 5, 6, 8, 9, 12, 15):      # the same generation after close / stir / both on the installed source, after ANOTHER source (failing close hook) was installed,
                                                            # used and closed, and with a scripted source that itself carries stir / close hooks (multi-step histories)
                L.append("rng.gen.h%d %s %s%s" % (h, api, hexs(script), tail))
            L.append("rng.gen %s %s%s" % (api, hexs(script[:n]), tail))          # exactly enough
            L.append("rng.gen %s %s%s" % (api, hexs(script[:n - 1]), tail))      # one byte short: EXHAUSTED must be reported
    # scalar_random: rejection of non-canonical (>= L) and zero draws
    def blk(v):
        return v.to_bytes(32, "little")
    good = [1, 2, L_ORDER - 1, rng.randrange(1, L_ORDER), (1 << 252)]
    bad = [0, L_ORDER, L_ORDER + 1, (1 << 253) - 1, L_ORDER + (1 << 200)]
    for g in good:
        for nb in (0, 1, 3):
            pre = [rng.choice(bad) for _ in range(nb)]
            hi = [rng.randrange(8) << 253 for _ in range(nb + 1)]   # top 3 bits are masked off: must not matter
            sc = b"".join(blk(v | h) for v, h in zip(pre + [g], hi))
            L.append("rng.gen scalar_random %s" % hexs(sc + rb(rng, 5)))
    L.append("rng.gen scalar_random %s" % hexs(blk(0) + blk(L_ORDER)))           # all rejected -> exhausted
    for _ in range(30 if not full else 300):
        L.append("rng.gen scalar_random %s" % hexs(rb(rng, 32 * 6)))
    return L


# ---------------------------------------------------------------- rngint: the REAL internal generator on a scripted outside world
# The op needs the modified harness files (ops_c18.c with op_rngint, wrap_sys.c / wrap_sys.h with the getentropy / gettimeofday / getpid / open
# shims) and four more --wrap flags.  Until they are merged into /verif/harness and vcore.WRAP_FLAGS, point VERIF_HARNESS_NEW at the directory
# holding the modified copies: this stage then builds its own harness executable (vcore.build_hx with name=...) from /verif/harness with those
# files substituted.  After the merge (files copied to /verif/harness, RNG_WRAP appended to vcore.WRAP_FLAGS) leave VERIF_HARNESS_NEW unset: the
# standard harness is used.  RDRAND values cannot be scripted, so the op answers "unavailable" unless the CPU mask disables rdrand; the stage
# runs it with mask "rdrand" and with ALL_OFF.
RNG_WRAP = "-Wl,--wrap=getentropy,--wrap=gettimeofday,--wrap=getpid,--wrap=open"
HARNESS_NEW = os.environ.get("VERIF_HARNESS_NEW")


def rngint_lines(tier, rng):
    full = tier == "thorough"
    L = []
    def ent_item(n=None):
        n = rng.choice([16, 32, 32, 32, 40, 8, 0]) if n is None else n
        return hexs(rb(rng, n)) if n else "00"
    def time_item():
        r = rng.random()
        if r < 0.04:
            return "!"
        if r < 0.07:
            return "0.0"
        if r < 0.15:
            return "%d.%d" % (rng.choice([18446744073709, 18446744073710, (1 << 64) - 1, 1 << 44]), rng.randrange(0, 1000000))
        return "%d.%d" % (rng.randrange(0, 1 << 32), rng.randrange(0, 1000000))
    calls_pool = ["buf:%d", "rnd", "stir", "close", "Buf:%d", "Rnd", "Stir", "Close", "Uni:%d", "Bytes:%d"]
    sizes = [0, 1, 3, 4, 8, 31, 32, 33, 63, 64, 65, 127, 128, 129, 255, 256, 257, 511, 512, 513, 1000, 2048]
    for it in range(400 if not full else 4000):
        ncalls = rng.choice([1, 2, 3, 5, 8, 13, 30])
        calls = []
        for _ in range(ncalls):
            c = rng.choice(calls_pool + ["rnd", "rnd", "buf:%d"])
            if c.startswith("Uni"):
                c = c % rng.choice([0, 1, 2, 3, 10, 1000003, (1 << 31) + 1, (1 << 32) - 1, rng.randrange(2, 1 << 32)])
            elif "%d" in c:
                c = c % rng.choice(sizes)
            calls.append(c)
        if it % 7 == 0:      # long runs of rnd: several pool refills (120 words per pool)
            calls += ["rnd"] * rng.choice([119, 120, 121, 250])
        nstir = 2 + sum(1 for c in calls if c in ("stir", "Stir", "close", "Close"))
        mode = rng.random()
        if mode < 0.1:       # getentropy unavailable at run time: the device fallback
            ent = ",".join(["!"] * rng.choice([1, 2]))
        elif mode < 0.2:     # the seed request fails at some point
            k = rng.randrange(1, nstir + 2)
            ent = ",".join([ent_item() for _ in range(k)] + ["!"])
        elif mode < 0.25:
            ent = "-"
        else:
            ent = ",".join(ent_item(16 if i == 0 else 32) if rng.random() < 0.8 else ent_item() for i in range(nstir + 1))
        times = ",".join(time_item() for _ in range(rng.choice([nstir, nstir, 1, 2]))) if rng.random() > 0.03 else "-"
        if rng.random() < 0.25:   # a fork somewhere: the scripted pid changes
            pids = ",".join(str(100 if i < k else 101) for k in [rng.randrange(0, 12)] for i in range(k + 2))
        else:
            pids = rng.choice(["100", "0", "-5", "4194304"])
        dev = "fail" if rng.random() < 0.15 else "ok"
        L.append("rngint %s %s %s %s %s" % (ent, times, pids, dev, ",".join(calls)))
    # directed: first use, 16 + 32 bytes requested; second stir 32; fork before / after the pool is filled; stir in the child
    e3 = ",".join(hexs(rb(rng, n)) for n in (16, 32, 32, 32))
    for calls in ["stir", "buf:64", "rnd", "rnd,rnd", "rnd,close,rnd", "buf:1,stir,buf:1", "Stir", "Stir,Stir", "Close", "close", "Uni:10", "Buf:0", "Bytes:0",
                  "rnd," * 120 + "rnd", "buf:0,buf:0,buf:0"]:
        L.append("rngint %s 5.7,6.1,6.2,6.3 100 ok %s" % (e3, calls))
        L.append("rngint %s 5.7,6.1,6.2,6.3 100,101 ok %s" % (e3, calls))
        L.append("rngint %s 5.7,6.1,6.2,6.3 100,100,101 ok %s" % (e3, calls))
    L.append("rngint %s 5.7,6.1 100,100,101,101 ok rnd,rnd,rnd,stir,rnd" % e3)        # fork after the pool was filled: the child pops the parent's words unnoticed
    L.append("rngint !,! 5.7,6.1 100 ok buf:32,rnd,close,buf:32")                      # getentropy unavailable: key never seeded (all-zero key, nonce = time)
    return L


def _rng_harness(ctx):
    if not HARNESS_NEW:
        return vcore.build_hx(ctx, "native", "plain")
    srcs = [os.path.join(HARNESS_NEW, os.path.basename(f)) if os.path.exists(os.path.join(HARNESS_NEW, os.path.basename(f))) else f for f in vcore.hx_sources()]
    return vcore.build_hx(ctx, "native", "plain", extra_sources=srcs, extra_flags=["-I" + HARNESS_NEW] + vcore.WRAP_FLAGS + [RNG_WRAP], name="rngint", wrap=False)


def unavailable_ok(ctx, cfg, line):
    return line.startswith("rngint ") and "rdrand" not in (cfg[1] or "")


def extra(ctx, rng):
    import sys
    mod = sys.modules[__name__]
    lines = rngint_lines(ctx.tier, rng)
    for ln in lines:
        vcore.note_case(ctx, ln)
    model_out = vcore.run_model(ctx, lines)
    bad = [l for l, m in zip(lines, model_out) if m in ("bad-op", "bad-args")][:3]
    if bad:
        raise vcore.BrokenCheck("rngint: the model driver rejects generated ops: %s" % bad)
    exe = _rng_harness(ctx)
    for mask in ("rdrand", vcore.ALL_OFF, ""):
        cfg = ("native", mask, "plain")
        impl_out, crashed = vcore.run_impl(ctx, exe, lines, mask)
        if impl_out and impl_out[0] == "bad-op":
            raise vcore.BrokenCheck("rngint: the harness has no such op (set VERIF_HARNESS_NEW or merge harness_new/ into /verif/harness)")
        vcore.compare_streams(ctx, mod, lines, model_out, impl_out, cfg, crashed)
        kinds = {}
        for m in model_out:
            k = "misuse" if " misuse ent=" in " " + m else "abort" if " abort ent=" in " " + m else "completed"
            kinds[k] = kinds.get(k, 0) + 1
        ctx.stats["rngint_outcomes"] = kinds
        ctx.configs_run.append({"variant": "native", "mask": mask or "none", "flavour": "plain", "ops": len(lines), "stage": "rngint",
                                "skipped_unavailable": sum(1 for o in impl_out if o == "unavailable")})
        ctx.log("rngint: mask %s: %d histories compared, violations so far %d" % (mask or "none", len(lines), len(ctx.violations)))
