"""C18 — random generation is unbiased, pluggable and fully covers generated secrets (DESIGN §3.18)."""
import vcore
from vcore import hexs

ID = "C18"
LEVEL = "proof"
_T = ["uniformMin_eq", "uniform_lt", "uniform_first_accepted", "uniform_all_rejected", "uniform_exact", "drg_eq", "drgNonce_ascii",
      "scalar_random_first", "keygen_covers"]
THEOREMS = vcore.theorems_in("SodiumModel/Properties/C18.lean", _T, "Sodium.C18")
IMPORTS = ["SodiumModel.Properties.C18"] if THEOREMS else ["SodiumModel.Model.Random"]
RULE = ("scripted random source installed through randombytes_set_implementation; bounds {0,1,2,3, 2^k +- 1, 2^31 +- 1, 2^32-1, random} x draw scripts "
        "placed at the rejection threshold - 1 / threshold / threshold + 1 and long rejection runs; deterministic generator for every length 0..1100 and "
        "seeds, the 2^38 limit probed through the misuse handler; every generating API (all 27 *_keygen, box/sign/kx keypairs, secretstream init_push, "
        "box_seal, core ed25519/ristretto255 random points and scalars) run on a script: logged request sizes and outputs compared with the model, then "
        "re-run with each consumed byte perturbed (output must change) and with bytes after the consumed prefix perturbed (output must not change)")
ASSUMPTIONS = ["the installed source does not supply its own `uniform` (as the property states)",
               "pwhash_str* salts are covered under C08; argon2_hash's raw-output pre-fill under C08/C20"]


def configs(tier):
    if tier == "quick":
        return [("native", "", "plain"), ("native", vcore.ALL_OFF, "plain")]
    return [(v, m, "plain") for v in vcore.VARIANTS for m in ("", vcore.ALL_OFF)]


def rb(rng, n):
    return bytes(rng.getrandbits(8) for _ in range(n))


L_ORDER = (1 << 252) + 27742317777372353535851937790883648493


def gen(ctx, tier, rng):
    L = []
    full = tier == "thorough"
    bounds = [0, 1, 2, 3, 5, 6, 7, 10, 255, 256, 257, 1000, 65535, 65536, 65537, (1 << 31) - 1, 1 << 31, (1 << 31) + 1, (1 << 32) - 1, (1 << 32) - 2, 3000000000]
    bounds += [(1 << k) + d for k in range(2, 32) for d in (-1, 0, 1)]
    bounds += [rng.randrange(2, 1 << 32) for _ in range(40 if not full else 400)]
    for n in bounds:
        if n >= (1 << 32):
            continue
        mn = (1 << 32) % n if n >= 2 else 0
        scripts = [[rng.getrandbits(32)], [mn], [max(mn - 1, 0), mn], [max(mn - 1, 0), 0, mn + 1 if mn + 1 < (1 << 32) else mn], [(1 << 32) - 1], [0, (1 << 32) - 1]]
        # accepted draws at the boundaries of the reduction itself: n-1, n, n+1, 2n-1, 2n, the largest multiple of n, 2^32-1
        if n >= 2:
            for dv in (n - 1, n, n + 1, 2 * n - 1, 2 * n, ((1 << 32) // n) * n - 1, ((1 << 32) // n) * n - n, (1 << 32) - 1):
                if mn <= dv < (1 << 32):
                    scripts.append([dv])
                    if mn > 0:
                        scripts.append([mn - 1, dv])
        if mn > 0:
            run = [rng.randrange(0, mn) for _ in range(rng.choice([3, 17, 60]))]
            scripts.append(run + [rng.randrange(mn, 1 << 32)] + [5])
            scripts.append(run)                      # all rejected: loop must keep drawing (script exhausted)
        for sc in scripts:
            L.append("rng.uniform %d %s" % (n, ",".join(str(x) for x in sc) if sc else "-"))
    for h in (1, 2, 3):
        L.append("rng.uniform.h%d 10 7,3" % h)
        L.append("rng.uniform.h%d 1000003 4294967295,5,12345" % h)
    L.append("rng.uniform 0 -")
    L.append("rng.uniform 1 -")
    for n in (range(0, 1101) if full else list(range(0, 200)) + list(range(200, 1101, 7)) + [1023, 1024, 1025]):
        L.append("rng.drg %d %s" % (n, hexs(rb(rng, 32))))
    # the seed kept inside the output buffer (key-erasure / ratchet form buf_deterministic(state, n, state)): every offset class, lengths across
    # the 64 / 256 / 512-byte batch boundaries of the stream backends
    for n in [32, 33, 63, 64, 65, 96, 127, 128, 255, 256, 257, 300, 511, 512, 513, 600, 1100]:
        for off in sorted(set([0, 1, 16, 31, 32, 33, n // 2, n - 64, n - 33, n - 32])):
            if 0 <= off and off + 32 <= n:
                L.append("rng.drg.alias %d %s %d" % (n, hexs(rb(rng, 32)), off))
    for size in [(1 << 38) + d for d in (1, 2, 64, 65)] + [1 << 39, (1 << 64) - 1]:
        L.append("rng.drg_guard %d" % size)
    # generating APIs: base script, every consumed byte perturbed, bytes beyond the consumed prefix perturbed
    apis = [("keygen16", 16, []), ("keygen32", 32, []), ("keygen64", 64, []), ("box_keypair", 32, []), ("sign_keypair", 32, []), ("kx_keypair", 32, []),
            ("ss_init_push", 24, [hexs(rb(rng, 32))]), ("seal", 32, [hexs(rb(rng, 33)), None]), ("ed25519_random", 32, []), ("ristretto_random", 64, [])]
    for (api, n, extra) in apis:
        for _ in range(2 if not full else 10):
            script = rb(rng, n + 8)
            ex = list(extra)
            if api == "seal":
                ex[1] = hexs(rb(rng, 32))
            tail = (" " + " ".join(ex)) if ex else ""
            L.append("rng.gen %s %s%s" % (api, hexs(script), tail))
            for i in range(n + 8):
                s2 = bytearray(script)
                s2[i] ^= 1 << rng.randrange(8)
                L.append("rng.gen %s %s%s" % (api, hexs(bytes(s2)), tail))
            for h in (1, 2, 3):      # the same generation after close / stir / both on the installed source (multi-step history)
                L.append("rng.gen.h%d %s %s%s" % (h, api, hexs(script), tail))
            L.append("rng.gen %s %s%s" % (api, hexs(script[:n]), tail))          # exactly enough
            L.append("rng.gen %s %s%s" % (api, hexs(script[:n - 1]), tail))      # one byte short: EXHAUSTED must be reported
    # scalar_random: rejection of non-canonical (>= L) and zero draws
    def blk(v):
        return v.to_bytes(32, "little")
    good = [1, 2, L_ORDER - 1, rng.randrange(1, L_ORDER), (1 << 252)]
    bad = [0, L_ORDER, L_ORDER + 1, (1 << 253) - 1, L_ORDER + (1 << 200)]
    for g in good:
        for nb in (0, 1, 3):
            pre = [rng.choice(bad) for _ in range(nb)]
            hi = [rng.randrange(8) << 253 for _ in range(nb + 1)]   # top 3 bits are masked off: must not matter
            sc = b"".join(blk(v | h) for v, h in zip(pre + [g], hi))
            L.append("rng.gen scalar_random %s" % hexs(sc + rb(rng, 5)))
    L.append("rng.gen scalar_random %s" % hexs(blk(0) + blk(L_ORDER)))           # all rejected -> exhausted
    for _ in range(30 if not full else 300):
        L.append("rng.gen scalar_random %s" % hexs(rb(rng, 32 * 6)))
    return L
