"""C15 — hex and Base64 codecs round-trip and decode strictly within capacity (DESIGN §3.15)."""
import os
import vcore
from vcore import hexs

ID = "C15"
LEVEL = "proof"
IMPORTS = ["SodiumModel.Properties.C15"]
THEOREMS_FILE = os.path.join(vcore.LEAN, "SodiumModel", "Properties", "C15.lean")
_ALL = ["hexPair_exact", "hexClassify_exact", "encChar_exact", "decChar_exact", "bin2hex_eq_spec", "hex_roundtrip", "hexWF_iff_gram",
        "hex_decode_spec", "hex_capacity", "hex_fail_len", "b64Len_eq", "encode_length", "b64_encode_eq_rfc",
        "b64_roundtrip", "b64_capacity", "b64_decode_iff"]


def _present():
    if not os.path.exists(THEOREMS_FILE):
        return []
    src = open(THEOREMS_FILE).read()
    return [t for t in _ALL if ("theorem %s " % t) in src or ("theorem %s\n" % t) in src]


THEOREMS = ["Sodium.C15." + t for t in _present()]
if not THEOREMS:   # proofs not merged yet: audit the model's dependencies only
    IMPORTS = ["SodiumModel.Model.Codecs"]
RULE = ("all byte strings 0..70 in 4 Base64 variants and hex with capacities 0..needed+1; exhaustive texts over all 256 "
        "characters to length 2 (quick) / 3 (thorough) x variants x ignore sets x end-pointer as range ops; mutated encodings "
        "(padding added/removed, trailing bits, foreign-variant characters, ignore characters at every position incl. NUL)")
ASSUMPTIONS = ["ignore set modelled as strchr sees it (a NUL byte in the text is skipped when an ignore string is supplied): DESIGN §4-O1"]
IGN = ["N", "-", "20", "3a200a", "41", "3d"]


def configs(tier):
    if tier == "quick":
        return [("native", "", "plain"), ("native", "", "plain", {"HX_ALIGN": "3"})]
    return [("native", "", "plain"), ("portable", "", "plain"), ("native", "", "asan")]


def rb(rng, n):
    return bytes(rng.getrandbits(8) for _ in range(n))


def b64len(n, v):
    if v & 2:
        return (n * 4 + 2) // 3
    return (n + 2) // 3 * 4


def gen(ctx, tier, rng):
    import base64
    L = []
    full = tier == "thorough"
    # encoders: every length, capacities around the limit, invalid variants
    for n in range(0, 71):
        b = rb(rng, n)
        for cap in (2 * n + 1, 2 * n + 5, 2 * n, 0):
            L.append("bin2hex %d %s" % (cap, hexs(b)))
        for v in (1, 3, 5, 7):
            bl = b64len(n, v)
            for cap in (bl + 1, bl + 4, bl, 0):
                L.append("bin2b64 %d %s %d" % (cap, hexs(b), v))
            L.append("b64len %d %d" % (n, v))
        for v in (0, 2, 4, 6, 8, 9, 17, 0x101):
            if n % 10 == 0:
                L.append("bin2b64 200 %s %d" % (hexs(b), v))
                L.append("b64len %d %d" % (n, v))
    # documented length for LARGE inputs (pure size arithmetic, no buffer needed): around every power of two up to 2^61 and around 3 * 2^k (where the text length crosses 2^(k+2))
    big = sorted({(1 << k) + d for k in range(8, 62) for d in (-2, -1, 0, 1, 2, 3)} | {3 * (1 << k) + d for k in range(8, 60) for d in (-3, -2, -1, 0, 1, 2, 3)} |
                 {rng.randrange(1 << 31, 1 << 61) for _ in range(60)})
    for n in big:
        for v in (1, 3, 5, 7):
            L.append("b64len %d %d" % (n, v))
    # decoders: valid encodings x capacities x ignore sets x end pointer, plus mutations
    for n in range(0, 71):
        reps = 3 if (full or n < 12) else 1
        for _ in range(reps):
            b = rb(rng, n)
            hx = b.hex().encode()
            if rng.random() < 0.3:
                hx = hx.upper()
            for cap in sorted({n, n + 1, max(n - 1, 0), 0}):
                for ign in ("N", "3a20"):
                    for we in (0, 1):
                        L.append("hex2bin %d %s %s %d" % (cap, hexs(hx), ign, we))
            # ignore chars at every position (only between pairs are legal), NUL, garbage, dangling digit
            for pos in range(0, len(hx) + 1, 1 if (full or n < 8) else 5):
                for ins in (b":", b" ", b"\x00", b"g", b"0"):
                    t = hx[:pos] + ins + hx[pos:]
                    L.append("hex2bin %d %s %s %d" % (n + 1, hexs(t), rng.choice(["N", "3a20", "-"]), rng.randrange(2)))
            for v in (1, 3, 5, 7):
                enc = base64.b64encode(b) if v in (1, 3) else base64.urlsafe_b64encode(b)
                if v & 2:
                    enc = enc.rstrip(b"=")
                for cap in sorted({n, n + 1, max(n - 1, 0), 0}):
                    for ign in ("N", "200a"):
                        L.append("b642bin %d %s %s %d %d" % (cap, hexs(enc), ign, rng.randrange(2), v))
                muts = []
                muts.append(enc + b"=")
                muts.append(enc.rstrip(b"="))
                muts.append(enc + b"A")
                muts.append(enc + b" ")
                muts.append(enc + b"\x00")
                if enc:
                    k = rng.randrange(len(enc))
                    muts.append(enc[:k] + rng.choice([b"+", b"/", b"-", b"_", b"=", b" ", b"\n", b"\x00", b"\x80", b"\xff", b"@", b"["]) + enc[k + 1:])
                    muts.append(enc[:k] + b" " + enc[k:])
                    muts.append(enc[:k] + b"\x00" + enc[k:])
                    # non-zero trailing bits: bump the last data character
                    d = enc.rstrip(b"=")
                    if d:
                        alpha = b"ABCDEFGHIJKLMNOPQRSTUVWXYZabcdefghijklmnopqrstuvwxyz0123456789" + (b"+/" if v in (1, 3) else b"-_")
                        i = alpha.find(d[-1:])
                        muts.append(d[:-1] + alpha[(i + 1) % 64:(i + 1) % 64 + 1] + enc[len(d):])
                    muts.append(enc[:-1])
                for t in muts:
                    L.append("b642bin %d %s %s %d %d" % (n + 2, hexs(t), rng.choice(IGN), rng.randrange(2), v))
        for v in (0, 2, 9):
            if n % 16 == 0:
                L.append("b642bin 8 41414141 N 0 %d" % v)
    # exhaustive short texts over all 256 characters
    maxl = 3 if full else 2
    for ln in range(0, maxl + 1):
        total = 256 ** ln
        step = 1 << 20
        for we in (0, 1):
            for ignidx in range(6):
                for cap in ((0, 1, 2) if ln < 3 else (2,)):
                    if ln == 3 and not full:
                        continue
                    for lo in range(0, total, step):
                        hi = min(total, lo + step)
                        L.append("enum.hexdec %d %d %d %d %d %d" % (ln, ignidx, we, cap, lo, hi))
                        for v in (1, 3, 5, 7):
                            L.append("enum.b64dec %d %d %d %d %d %d %d" % (v, ln, ignidx, we, cap, lo, hi))
    if not full:   # sampled 3-character texts
        for _ in range(24):
            lo = rng.randrange(0, 256 ** 3 - 4096)
            L.append("enum.b64dec %d 3 %d %d 2 %d %d" % (rng.choice([1, 3, 5, 7]), rng.randrange(6), rng.randrange(2), lo, lo + 4096))
            L.append("enum.hexdec 3 %d %d 2 %d %d" % (rng.randrange(6), rng.randrange(2), lo, lo + 4096))
    return L


def enum_case(line, idx):
    p = line.split(" ")
    igns = ["N", "-", "20", "3a200a", "41", "3d"]
    if p[0] == "enum.hexdec":
        ln, ignidx, we, cap = int(p[1]), int(p[2]), p[3], int(p[4])
        return "hex2bin %d %s %s %s" % (cap, hexs(idx.to_bytes(ln, "little")), igns[ignidx], we)
    v, ln, ignidx, we, cap = int(p[1]), int(p[2]), int(p[3]), p[4], int(p[5])
    return "b642bin %d %s %s %s %d" % (cap, hexs(idx.to_bytes(ln, "little")), igns[ignidx], we, v)


# ---- independent property predicate (strict reference decoders written from RFC 4648, not from the model)
_STD = b"ABCDEFGHIJKLMNOPQRSTUVWXYZabcdefghijklmnopqrstuvwxyz0123456789+/"
_URL = b"ABCDEFGHIJKLMNOPQRSTUVWXYZabcdefghijklmnopqrstuvwxyz0123456789-_"


def _ign(s):
    return None if s == "N" else (b"" if s == "-" else bytes.fromhex(s))


def _spec_b64(text, ign, v):
    """returns decoded bytes if `text` is well formed for variant v modulo ignorable characters, else None;
    'undecidable' when the ignore set meets the alphabet or '=' (grammar is then order dependent)."""
    import base64
    alpha = _URL if v & 4 else _STD
    if ign and any((c in alpha or c == 0x3d) for c in ign):
        return "undecidable"
    core = bytes(c for c in text if (c in alpha or c == 0x3d) or not (ign is not None and c != 0 and c in ign))
    if any((c not in alpha and c != 0x3d) for c in core):
        return None
    data = core.rstrip(b"=")
    npad = len(core) - len(data)
    if b"=" in data or len(data) % 4 == 1:
        return None
    want_pad = 0 if (v & 2) else (-len(data)) % 4
    if npad != want_pad:
        return None
    bits = 0
    for c in data:
        bits = (bits << 6) | alpha.index(c)
    extra = (6 * len(data)) % 8
    if bits & ((1 << extra) - 1):
        return None
    return (bits >> extra).to_bytes(6 * len(data) // 8, "big")


def _spec_hex(text, ign):
    out = bytearray()
    i = 0
    hexd = b"0123456789abcdefABCDEF"
    while i < len(text):
        c = text[i]
        if c in hexd:
            if i + 1 >= len(text) or text[i + 1] not in hexd:
                return None
            out.append(int(text[i:i + 2].decode(), 16))
            i += 2
        elif ign is not None and c != 0 and c in ign:
            i += 1
        else:
            return None
    return bytes(out)


def predicate(ctx, line, impl, model):
    p = line.split(" ")
    bx = lambda s: b"" if s == "-" else bytes.fromhex(s)
    try:
        if p[0] in ("b642bin", "hex2bin") and p[4 if p[0] == "b642bin" else 4 - 1] in ("0", "1"):
            we = p[4] if p[0] == "b642bin" else p[4 - 0 - 0]
        if p[0] == "b642bin":
            cap, text, ign, we, v = int(p[1]), bx(p[2]), _ign(p[3]), p[4], int(p[5])
            if v not in (1, 3, 5, 7):
                return (impl != "misuse"), "invalid variant must go to the misuse handler"
            exp = _spec_b64(text, ign, v)
        elif p[0] == "hex2bin":
            cap, text, ign, we = int(p[1]), bx(p[2]), _ign(p[3]), p[4]
            exp = _spec_hex(text, ign)
        else:
            return True, "implementation output differs from the model (encoders: model proved equal to RFC 4648)"
        if exp == "undecidable" or we == "1":
            return True, "implementation differs from the model on a decoding case outside the simple reference predicate"
        f = impl.split(" ")
        rc = f[0]
        if exp is None or len(exp) > cap:
            if rc == "0":
                return True, "property violated: malformed or over-capacity text accepted (reference decoder rejects it)"
            return False, "rejected as required; only unspecified outputs differ from the model"
        if rc != "0":
            return True, "property violated: well-formed text rejected (reference decoder yields %s)" % exp.hex()
        got = bytes.fromhex(f[3])[:len(exp)] if f[3] != "-" else b""
        if got != exp or f[1] != str(len(exp)):
            return True, "property violated: decoded bytes/length differ from the reference decoder (%s)" % exp.hex()
        return False, "agrees with the reference decoder; differs from the model only in unspecified outputs"
    except Exception as e:
        return True, "implementation differs from the model (predicate error: %s)" % e
