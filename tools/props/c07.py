"""C07 — Edwards25519 / Ristretto255 group and scalar arithmetic are exact and validated (DESIGN §3.7)."""
import vcore, edpy
from vcore import hexs

ID = "C07"
LEVEL = "proof"
_T = ["scalar_reduce_eq", "scalar_negate_eq", "scalar_complement_eq", "scalar_add_general", "scalar_add_eq", "scalar_sub_general", "scalar_sub_eq", "scalar_mul_eq",
      "scalar_invert_rc", "sc_is_canonical_iff", "scalar_add_deviation", "scalar_sub_deviation", "reduce64_spec", "negate_eq_spec", "complement_eq_spec", "add_eq_spec", "sub_eq_spec",
      "valid_point_decision", "is_inf_iff", "scalar_bytes_value", "scalarmult_rc_decision", "scalarmult_base_rc_decision",
      "xmd_eq_rfc", "xmd_eq_libsodium", "xmd_oversize_deviation", "from_string_eq_spec", "from_string_eq_rfc", "from_string_bad_alg", "ristretto_from_string_eq_spec", "from_string_ro_eq"]
THEOREMS = vcore.theorems_in("SodiumModel/Properties/C07.lean", _T, "Sodium.C07")
THEOREMS = THEOREMS + vcore.theorems_in("SodiumModel/Properties/C07Reduce.lean", ['load_spec', 'fold_step_spec', 'fold_constants', 'fold_blocks_spec', 'carry_blocks_spec', 'no_overflow', 'mul_no_overflow', 'bounds_small', 'reduce_tail_spec', 'sc25519_reduce_spec', 'sc25519_reduce_canonical', 'sc25519_mul_spec', 'sc25519_muladd_spec', 'sc25519_invert_spec', 'sc25519_reduce_eq_spec', 'sc25519_mul_eq_spec', 'scalar_reduce_real_spec', 'scalar_negate_real_spec', 'scalar_complement_real_spec', 'scalar_add_real_general', 'scalar_add_real_spec', 'scalar_sub_real_general', 'scalar_sub_real_spec', 'scalar_mul_real_spec', 'scalar_invert_real_spec', 'scalar_add_real_deviation'], "Sodium.C07Reduce")
IMPORTS = ["SodiumModel.Properties.C07"] if THEOREMS else ["SodiumModel.Spec.Ed25519"]
IMPORTS = IMPORTS + ["SodiumModel.Properties.C07Reduce"]
TABLES = ['core_ed25519_L_eq']      # Tie B: kernel-checked `table regenerated from the source = model table`
# the ge25519 group-operation code (point formulas, signed-window recoding, constant-time table lookups, the three scalar multiplications, base tables) in the C's structure
THEOREMS = THEOREMS + vcore.theorems_in("SodiumModel/Properties/C06Ge.lean", ['isCached_sc', 'isPrecomp_sc', 'extEq_of_sc', 'p1p1_to_p3_extended', 'p1p1_to_p2_eq', 'p3_to_cached_correct', 'add_cached_correct', 'sub_cached_correct', 'madd_correct', 'msub_correct', 'p2_dbl_correct', 'p3_dbl_correct', 'p2_dbl_negated', 'add_cached_coordinatewise', 'p3_add_correct', 'p3_sub_correct', 'neutral_elements', 'recode_correct', 'recode_digits_in_range', 'recode_top_digit_out_of_range', 'scalarmult_drops_top_digit', 'slide_vartime_correct', 'slide_vartime_loses_carry', 'cmov8_cached_lookup', 'cmov8_lookup', 'cmov8_cached_multiple', 'cmov8_cached_out_of_range', 'cmov8_multiple', 'eff_sum_eq', 'scalarmult_abstract', 'scalarmult_abstract_general', 'scalarmult_base_abstract', 'double_scalarmult_abstract', 'double_scalarmult_abstract_exact', 'scalarmult_spec', 'scalarmult_base_spec', 'double_scalarmult_spec', 'base_tables_correct', 'scalarmult_base_correct', 'double_scalarmult_correct', 'mul_l_abstract', 'is_on_main_subgroup_spec', 'fe25519_invert_correct', 'fe25519_pow22523_correct', 'has_small_order_correct', 'is_on_curve_correct', 'is_on_curve_weaker_than_spec'], "Sodium.C06Ge")
IMPORTS = IMPORTS + ["SodiumModel.Properties.C06Ge"]
# the Ristretto255 and Elligator 2 field-level code (sqrt_ratio_m1, frombytes / p3_tobytes, elligator, from_hash, mont_to_ed, from_uniform, reduce64, wrappers) = RFC 9496 / RFC 9380, coordinate-wise, for all inputs
THEOREMS = THEOREMS + vcore.theorems_in("SodiumModel/Properties/C07Maps.lean", ['constants_eq', 'constants_meaning', 'pow22523_eq', 'sqrt_ratio_m1_eq', 'abs_eq', 'is_canonical_eq', 'frombytes_eq_decode', 'frombytes_rc', 'frombytes_noncanonical', 'p3_tobytes_eq_encode', 'elligator_eq_map', 'from_hash_eq', 'is_valid_point_eq', 'core_add_eq', 'core_sub_eq', 'random_eq', 'scalarmult_eq', 'scalarmult_base_eq', 'notsquare_eq', 'sqrt_eq', 'mont_to_ed_eq', 'elligator2_eq', 'reduce64_eq', 'ge_from_hash_eq', 'ed_from_uniform_eq', 'ed_random_eq', 'clear_cofactor_eq', 'p_prime'], "Sodium.C07Maps")
IMPORTS = IMPORTS + ["SodiumModel.Properties.C07Maps"]
FINGERPRINTS = "C06,C07"     # Tie B: pinned source text of the transcribed ge25519 functions (tools/fingerprint.py)
TIEB_SC = True     # Tie B: the sc25519 limb model is re-transcribed from the current source and the proofs re-checked against it
RULE = ("structured 32-byte encodings: every small-order point and alias, y >= p, x = 0 with sign bit, non-squares, prime-order points shifted by each torsion point, random; "
        "scalars 0, 1, L-1, L, L+1, 2L, 8L, 2^252 +- k, 2^255 +- k, all-ones, random reduced and unreduced, 64-byte inputs up to 2^512-1; hash-to-group for both hashes, NU and RO, "
        "contexts NULL / empty / up to 255 / longer than 255 bytes; Ristretto negative / non-canonical encodings; every op on ed25519 and ristretto255 wrappers")
ASSUMPTIONS = ["point arithmetic, the sc25519 limb code and the Elligator / Ristretto maps are translation-validated against executable specifications over naturals (RFC 8032, 9380, 9496)"]
P, LL = edpy.p, edpy.L



def tie_b(ctx):
    """the precomputed base-point tables (fe_51/base.h, base2.h, constants.h) are re-extracted from the current source; if the text differs the kernel re-checks
    all 264 entries against the specification base point (Proofs/Ge25519TablesOK.lean) and the theorems that use them"""
    import subprocess, sys, os
    gen = lambda out: subprocess.run([sys.executable, os.path.join(vcore.VERIF, "tools", "gen_ge_base.py"), os.path.join(vcore.REPO, "src", "libsodium"), out], capture_output=True, text=True)
    r = vcore.tie_b_regen(ctx, "ge25519 precomputed tables (tools/gen_ge_base.py)", gen, "SodiumModel/Model/Ge25519Tables.lean", "SodiumModel.Properties.C06Ge",
                          ["Sodium.C06Ge.base_tables_correct", "Sodium.C06Ge.scalarmult_base_correct", "Sodium.C06Ge.double_scalarmult_correct"])
    ctx.log("Tie B: ge25519 base tables re-extracted from the source, %s" % ("identical / proofs hold" if not r else "CHANGED: %s" % [x[0] for x in r]))
    return r


def configs(tier):
    if tier == "quick":
        return [("native", "", "plain"), ("noti", "", "plain"),
                ("native", "", "plain", {"HX_FILL": "255"})]      # output buffers start all-ones (a non-canonical encoding) instead of stack leftovers
    return [(v, "", "plain") for v in vcore.VARIANTS]


def rb(rng, n):
    return bytes(rng.getrandbits(8) for _ in range(n))


def le32(v):
    return (v % (1 << 256)).to_bytes(32, "little")


def scalars(rng, full):
    vs = [0, 1, 2, LL - 1, LL, LL + 1, 2 * LL, 8 * LL, 15 * LL, (1 << 256) - 1, (1 << 255), (1 << 255) - 1, (1 << 252), LL - 2]
    vs += [(1 << 252) + d for d in range(-3, 4)] + [(1 << 255) + d for d in range(-3, 4)]
    vs += [rng.randrange(0, LL) for _ in range(20 if not full else 200)] + [rng.getrandbits(256) for _ in range(10 if not full else 100)]
    return [le32(v) for v in vs if 0 <= v < (1 << 256)]


def points(rng, full):
    pts = []
    from props.c06 import aliases
    for T in edpy.TORSION:
        pts += aliases(T)
    for _ in range(12 if not full else 100):
        k = rng.randrange(1, LL)
        Pm = edpy.mul(k, edpy.B)
        pts.append(edpy.enc(Pm))
        T = rng.choice(edpy.TORSION[1:])
        pts.append(edpy.enc(edpy.add(Pm, T)))           # on the curve, outside the prime-order subgroup
    for y in list(range(0, 24)) + [P - 1, P - 2, (1 << 255) - 1, (1 << 255) - 20]:
        for sb in (0, 1):
            pts.append((y | (sb << 255)).to_bytes(32, "little"))
            if y + P < (1 << 255):
                pts.append(((y + P) | (sb << 255)).to_bytes(32, "little"))
    pts += [rb(rng, 32) for _ in range(30 if not full else 300)]
    return pts


def gen(ctx, tier, rng):
    L = []
    full = tier == "thorough"
    pts = points(rng, full)
    scs = scalars(rng, full)
    for pt in pts:
        L.append("ed.valid %s" % hexs(pt))
        L.append("ri.valid %s" % hexs(pt))
        q = rng.choice(pts)
        L.append("ed.add %s %s" % (hexs(pt), hexs(q)))
        L.append("ed.sub %s %s" % (hexs(pt), hexs(q)))
        L.append("ri.add %s %s" % (hexs(pt), hexs(q)))
        L.append("ri.sub %s %s" % (hexs(pt), hexs(q)))
        n = rng.choice(scs)
        L.append("ed.scalarmult %s %s" % (hexs(n), hexs(pt)))
        L.append("ed.scalarmult_noclamp %s %s" % (hexs(n), hexs(pt)))
        L.append("ri.scalarmult %s %s" % (hexs(n), hexs(pt)))
    for n in scs:
        L.append("ed.base %s" % hexs(n))
        L.append("ed.base_noclamp %s" % hexs(n))
        L.append("ri.base %s" % hexs(n))
        L.append("sc negate %s" % hexs(n))
        L.append("sc complement %s" % hexs(n))
        L.append("sc invert %s" % hexs(n))
        for m in rng.sample(scs, 4):
            L.append("sc mul %s %s" % (hexs(n), hexs(m)))
            L.append("sc add %s %s" % (hexs(n), hexs(m)))
            L.append("sc sub %s %s" % (hexs(n), hexs(m)))
        # L*P must be the identity for valid ristretto / prime-order points: scalarmult by L reports an error
    for v in [0, 1, LL - 1, LL, LL + 1, (1 << 512) - 1, (1 << 256), (1 << 511), LL * LL, LL << 252] + [rng.getrandbits(512) for _ in range(20)]:
        L.append("sc reduce %s" % hexs((v % (1 << 512)).to_bytes(64, "little")))
    # valid ristretto elements: from_hash outputs; arithmetic on them
    hs = [rb(rng, 64) for _ in range(15 if not full else 150)] + [bytes(64), b"\xff" * 64]
    for h in hs:
        L.append("ri.from_hash %s" % hexs(h))
        L.append("ed.from_uniform %s" % hexs(h[:32]))
    L.append(("RI", hs[:10]))
    # hash to group
    msgs = [b"", b"abc", rb(rng, 1), rb(rng, 100), rb(rng, 300)]
    ctxs = ["N", "-", hexs(b"QUUX-V01-CS02-with-edwards25519_XMD:SHA-512_ELL2_RO_"), hexs(bytes(rng.randrange(1, 256) for _ in range(255))),
            hexs(bytes(rng.randrange(1, 256) for _ in range(256))), hexs(bytes(rng.randrange(1, 256) for _ in range(500))), hexs(b"a")]
    for m in msgs:
        for c in ctxs:
            for alg in ("256", "512"):
                for ro in ("0", "1"):
                    L.append("ed.from_string %s %s %s %s" % (alg, ro, c, hexs(m)))
                L.append("ri.from_string %s 0 %s %s" % (alg, c, hexs(m)))
    return L


def post_model(ctx, T, run_model):
    base = [l for l in T if isinstance(l, str)]
    pend = [l for l in T if not isinstance(l, str)]
    L = []
    for t in pend:
        outs = run_model(["ri.from_hash %s" % hexs(h) for h in t[1]])
        els = [o.split(" ")[1] for o in outs]
        rng = __import__("random").Random(ctx.seed + 5)
        for e in els:
            f = rng.choice(els)
            L.append("ri.valid %s" % e)
            L.append("ri.add %s %s" % (e, f))
            L.append("ri.sub %s %s" % (e, f))
            L.append("ri.sub %s %s" % (e, e))
            L.append("ri.scalarmult %s %s" % (hexs(le32(rng.randrange(1, LL))), e))
            L.append("ri.scalarmult %s %s" % (hexs(le32(LL)), e))       # identity result: must be reported as an error
            L.append("ri.scalarmult %s %s" % (hexs(le32(0)), e))
            neg = bytearray(bytes.fromhex(e))
            neg[0] ^= 1                                                 # odd s: non-canonical Ristretto encoding
            L.append("ri.valid %s" % hexs(bytes(neg)))
    return base + L
