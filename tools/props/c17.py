"""C17 — guarded allocations trap overflows, detect underflows and honour protections (DESIGN §3.17)."""
import vcore

ID = "C17"
LEVEL = "proof"
_T = ["pageRound_spec", "layout_spec", "accepted_never_wraps", "old_guard_insufficient", "recover_base", "malloc_enomem_iff", "allocarray_spec", "protections", "free_calls"]
THEOREMS = vcore.theorems_in("SodiumModel/Properties/C17.lean", _T, "Sodium.C17")
IMPORTS = ["SodiumModel.Properties.C17"] if THEOREMS else ["SodiumModel.Model.Alloc"]
# byte-and-page-level model of utils.c (contents, protections, faulting accesses): theorems over Model/AllocMem.lean; NOT yet routed through the driver — it shares the
# layout lemmas (Proofs/Alloc) with the tied Model/Alloc.lean, whose call logs the correspondence compares
IMPORTS = IMPORTS + ["SodiumModel.Properties.C17Mem"]
THEOREMS = THEOREMS + vcore.theorems_in("SodiumModel/Properties/C17Mem.lean", ["malloc_spec", "live_access", "mprotect_spec", "history_invariant", "free_spec", "free_null", "allocarray_spec", "memzero_spec", "guard_form"], "Sodium.C17Mem")
RULE = ("layout: every size 0..3 pages+1 (logged mmap/mprotect/mlock/munmap arguments relative to the mapping base, user pointer offset, 0xdb fill, "
        "canary constancy, free's calls) and sizes near SIZE_MAX; allocarray at overflow boundaries; fork probes: first byte past the end (must fault), "
        "each of the 16 canary bytes altered then free (must be killed), last in-bounds byte, all protection histories of length <= 4 (120) followed by a "
        "read probe, a write probe and a free, for sizes around page multiples; after every history of length <= 3 a read and a write of the first byte past "
        "the end and a read of the guard page before the data (must fault) for the sizes where canary and data straddle a page boundary; the mprotect "
        "calls issued by the protection API (offset, length, protection relative to the mapping base) for every size 0..3 pages")
ASSUMPTIONS = ["page size 4096 in the driver (the theorems hold for every power of two 2^5..2^30)",
               "mlock/munlock results are forced to 0 by the wrapper so RLIMIT_MEMLOCK does not influence the comparison (sodium_malloc ignores mlock failure anyway)",
               "that the kernel faults on PROT_NONE / that raise() terminates the process is observed (fork probes), not proved"]


def configs(tier):
    if tier == "quick":
        return [("native", "", "plain")]
    return [("native", "", "plain"), ("portable", "", "plain")]


def gen(ctx, tier, rng):
    import itertools
    L = []
    full = tier == "thorough"
    PG = 4096
    for s in range(0, 3 * PG + 2):
        L.append("alloc.layout %d" % s)
    M = (1 << 64) - 1
    # sizes the guard must refuse, sizes just below it (arithmetic must not wrap; the OS then refuses the huge mapping with ENOMEM)
    for s in [M, M - 1, 1 << 63, 1 << 48] + [M - k * PG + d for k in (3, 4, 5, 6) for d in (-17, -16, -15, -2, -1, 0, 1)]:
        if 0 <= s <= M:
            L.append("alloc.layout %d" % s)
    for (c, s) in [(0, 0), (0, 5), (5, 0), (1, 1), (3, 5), (1 << 32, 1 << 32), ((1 << 32) + 1, 1 << 32), (1 << 32, (1 << 32) - 1), (2, 1 << 63), (M, 1), (1, M), (M, M),
                   (3, (M // 3) + 1), (3, M // 3), (7, 8191), (1 << 20, 1 << 44), ((1 << 44) + 1, 1 << 20)]:
        # only in-range products that are small, or refusals: never ask for terabytes
        prod = c * s
        if prod <= 3 * PG or prod >= M - 4 * PG or (c > 0 and s >= M // c):
            L.append("alloc.array %d %d" % (c, s))
    sizes = sorted(set([0, 1, 15, 16, 17, 100, PG - 17, PG - 16, PG - 15, PG - 1, PG, PG + 1, 2 * PG - 16, 2 * PG, 3 * PG] +
                       ([s for k in (1, 2, 3) for d in range(-32, 33) for s in [k * PG + d]] if full else [])))
    for s in sizes:
        L.append("alloc.probe %d past" % s)
        L.append("alloc.probe %d pastw" % s)
        L.append("alloc.probe %d last" % s)
        for i in range(16):
            L.append("alloc.probe %d canary %d" % (s, i))
            if i in (0, 7, 8, 15):      # with SIGSEGV ignored / handled by a handler that returns: the process must still be terminated
                L.append("alloc.probe %d canary.ign %d" % (s, i))
                L.append("alloc.probe %d canary.hdl %d" % (s, i))
        L.append("alloc.probe %d before 0" % s)
    hist = ["".join(h) for n in range(0, 5) for h in itertools.product("nrw", repeat=n)]
    for s in ([100, PG - 16, PG + 1] if not full else sizes):
        for h in hist:
            for pr in "RWF":
                if s == 0 and pr in "RW":
                    continue
                L.append("alloc.probe %d prot %s%s" % (s, h, pr))
    # the guard pages must stay inaccessible after ANY protection history ("any access past the end faults at once" is not limited to fresh
    # allocations): read / write of the first byte past the end and read of the guard page before the data, after histories of length <= 3,
    # for the sizes at which the canary and the user data fall on different sides of a page boundary
    gsizes = sorted(set([0, 1, 100, PG - 17, PG - 16, PG - 15, PG - 8, PG - 1, PG, PG + 1, 2 * PG - 15, 2 * PG - 1, 2 * PG, 3 * PG - 7, 3 * PG]))
    ghist = [h for h in hist if len(h) <= (4 if full else 3)]
    for s in (gsizes if not full else sorted(set(sizes) | set(gsizes))):
        for h in ghist:
            for pr in "PQG":
                L.append("alloc.probe %d prot %s%s" % (s, h, pr))
    # and the system calls the protection API issues, for every size 0..3 pages (one history each, rotating) and all short histories at the boundary sizes
    short = [h for h in hist if 1 <= len(h) <= 2]
    for s in range(0, 3 * PG + 2):
        L.append("alloc.protlog %d %s" % (s, short[s % len(short)]))
    for s in gsizes:
        for h in short:
            L.append("alloc.protlog %d %s" % (s, h))
    return L
