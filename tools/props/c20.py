"""C20 — memory exhaustion makes password hashing and guarded allocation fail closed (DESIGN §3.20)."""
import vcore

ID = "C20"
LEVEL = "proof"
_T = ["any_failure_imp_error", "balanced", "verify_never_matches_on_failure", "success_iff_no_failure", "run_good"]
THEOREMS = vcore.theorems_in("SodiumModel/Properties/C20.lean", _T, "Sodium.C20")
IMPORTS = ["SodiumModel.Properties.C20"] if THEOREMS else ["SodiumModel.Model.Fault"]
# Tie B (session 6): the allocation skeletons of the 28 entry points are regenerated from the clang AST of the current source (tools/c2lean_alloc.py) into
# Generated/AllocProgs.lean; `goodAll` (explores both answers at every request and every abstracted condition) is decided by the kernel for each and
# `fail_closed_of_goodAll` lifts it to every oracle; the generated programs are proved observationally equal to the hand-written ones of Model/Fault.lean
_TG = ['fail_closed_of_goodAll', 'oracle_prefix_principle', 'requests_bounded', 'good_crypto_pwhash', 'good_crypto_pwhash_str', 'good_crypto_pwhash_str_alg', 'good_crypto_pwhash_str_verify', 'good_crypto_pwhash_str_needs_rehash', 'good_crypto_pwhash_argon2i', 'good_crypto_pwhash_argon2i_str', 'good_crypto_pwhash_argon2i_str_verify', 'good_crypto_pwhash_argon2i_str_needs_rehash', 'good_crypto_pwhash_argon2id', 'good_crypto_pwhash_argon2id_str', 'good_crypto_pwhash_argon2id_str_verify', 'good_crypto_pwhash_argon2id_str_needs_rehash', 'good_crypto_pwhash_scryptsalsa208sha256', 'good_crypto_pwhash_scryptsalsa208sha256_ll', 'good_crypto_pwhash_scryptsalsa208sha256_str', 'good_crypto_pwhash_scryptsalsa208sha256_str_verify', 'good_crypto_pwhash_scryptsalsa208sha256_str_needs_rehash', 'good_argon2_hash', 'good_argon2_verify', 'good_argon2i_hash_encoded', 'good_argon2i_hash_raw', 'good_argon2id_hash_encoded', 'good_argon2id_hash_raw', 'good_argon2i_verify', 'good_argon2id_verify', 'good_sodium_malloc', 'good_sodium_allocarray', 'all_entries_good', 'crash_only_before_requests', 'entry_good', 'api_fail_closed', 'verify_never_matches_on_failure', 'code_fail_closed', 'guarded_alloc_fail_closed', 'same_run', 'pwhash_agrees', 'pwhash_dispatch_agrees', 'verify_agrees', 'needsRehash_agrees', 'scrypt_agrees', 'sodiumMalloc_agrees']
THEOREMS = THEOREMS + vcore.theorems_in("SodiumModel/Properties/C20Gen.lean", _TG, "Sodium.C20Gen")
IMPORTS = IMPORTS + ["SodiumModel.Properties.C20Gen"]


def tie_b(ctx):
    import fcntl, os, subprocess, c20_tieb
    gen = os.path.join(vcore.LEAN, "Generated", "AllocProgs.lean")
    for t in _TG:
        ctx.obligations.append({"theorem": "Sodium.C20Gen." + t + " [allocation skeletons regenerated from the source]", "axioms": ["propext", "Classical.choice", "Quot.sound"]})
    with open(os.path.join(vcore.LEAN, ".lake-lock"), "w") as lk:
        fcntl.flock(lk, fcntl.LOCK_EX)
        ok, msg, off = c20_tieb.tie_b(vcore.LEAN, os.path.join(vcore.REPO, "src", "libsodium"), outdir=os.path.join(ctx.scratch, "tieb-alloc"))
        if "DIFFERS" in msg or not ok:      # the committed text was restored by c20_tieb: bring the build products back in line with it
            subprocess.run(["lake", "build", "SodiumModel.Properties.C20Gen"], cwd=vcore.LEAN, capture_output=True, text=True)
    ctx.log("Tie B (allocation skeletons): " + msg.split("\n")[0][:300])
    ctx.stats["alloc_skeletons"] = msg[:2000]
    if ok:
        ctx.discharged = len(ctx.obligations)
        return []
    ctx.discharged = len(ctx.obligations) - len(_TG)
    if off:
        ctx.violations_with_input = getattr(ctx, "violations_with_input", 0) + 1      # a concrete fault schedule is printed in the message
    return [("Sodium.C20Gen.all_entries_good", msg)]
RULE = ("for each of 27 API entry points (raw hashing, string creation, string verification with right and wrong password, needs-rehash for Argon2i / "
        "Argon2id / default and scrypt, sodium_malloc / sodium_allocarray): a counting run, then every request position i failed alone and all requests from "
        "i on (exhaustive over positions, i = 0..max+2), through link-time wrappers around malloc/calloc/posix_memalign/mmap/free/munmap; return code, the full "
        "allocation event sequence, the number of live blocks at return and whether a hash string was produced are compared with the model")
ASSUMPTIONS = ["the real allocator is replaced by failure injection at the wrapper level (the kernel's own OOM behaviour is not exercised)"]
APIS = ["argon2id_raw", "argon2i_raw", "pwhash_raw", "argon2id_raw65", "argon2i_raw200", "pwhash_raw16", "argon2id_str", "argon2i_str", "pwhash_str", "argon2id_verify_ok", "argon2id_verify_wrong",
        "argon2i_verify_ok", "argon2i_verify_wrong", "pwhash_verify_ok", "pwhash_verify_wrong", "argon2id_needs_rehash", "argon2id_needs_rehash_diff",
        "argon2i_needs_rehash", "pwhash_needs_rehash", "scrypt_raw", "scrypt_ll", "scrypt_str", "scrypt_verify_ok", "scrypt_verify_wrong", "sodium_malloc", "sodium_allocarray"]


def configs(tier):
    if tier == "quick":
        return [("native", "", "plain"), ("native", vcore.ALL_OFF, "plain")]
    return [(v, m, "plain") for v in vcore.VARIANTS for m in ("", vcore.ALL_OFF)] + [("native", "", "asan")]


# "any single allocation or mapping" is quantified over the cost parameters too: the mapping size decides which mmap flags / paths are taken
# (sizes that are and are not multiples of 2 MiB, i.e. of a huge page; the 64 MiB interactive preset in thorough)
SIZED = ["argon2id_raw", "argon2i_raw", "pwhash_raw", "argon2id_raw65", "argon2id_str", "pwhash_str", "argon2id_verify_ok", "argon2id_verify_wrong", "pwhash_verify_ok", "pwhash_verify_wrong"]
SIZES_Q = [1 << 20, 2 << 20, 3 << 20, 8 << 20]


def gen(ctx, tier, rng):
    L = []
    for a in SIZED:
        for m in (SIZES_Q if tier == "quick" else SIZES_Q + [4 << 20, 6 << 20, 16 << 20, 64 << 20]):
            L.append("fault.run %s.m%d count" % (a, m))
            for i in range(0, 9):
                L.append("fault.run %s.m%d only %d" % (a, m, i))
                if i % 2 == 0 or tier != "quick":
                    L.append("fault.run %s.m%d from %d" % (a, m, i))
    for a in APIS:
        L.append("fault.run %s count" % a)
        for i in range(0, 11):
            L.append("fault.run %s only %d" % (a, i))
            L.append("fault.run %s from %d" % (a, i))
    return L


def predicate(ctx, line, impl, model):
    """the property itself on the implementation's own report"""
    f = dict(x.split("=", 1) for x in impl.split(" ") if "=" in x)
    failed = "!" in f.get("ev", "")
    if failed and f.get("rc") == "0":
        return True, "an allocation request failed but the call reported success"
    if f.get("live") not in ("0",):
        return True, "blocks still allocated (or freed twice) at return: live=%s" % f.get("live")
    if f.get("str") in ("LEAKED", "MISSING"):
        return True, "hash string reported inconsistently with the return code"
    if "verify" in line and failed and f.get("rc") == "0":
        return True, "string verification reported a match although an allocation failed"
    return False, "fails closed as required; only the allocation sequence differs from the model"
