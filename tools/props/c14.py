"""C14 — constant-time helpers: exact comparisons and little-endian arithmetic (DESIGN §3.14)."""
import vcore
from vcore import hexs

ID = "C14"
LEVEL = "proof"
IMPORTS = ["SodiumModel.Properties.C14"]
THEOREMS = ["Sodium.C14." + t for t in [
    "memcmp_exact", "is_zero_exact", "verify_generic_exact", "verify_sse2_exact", "verify_n_exact",
    "compare_exact", "increment_generic_exact", "add_generic_exact", "sub_generic_exact",
    "increment_asm8_eq", "increment_asm12_eq", "increment_asm24_eq", "add_asm8_eq", "add_asm12_eq",
    "add_asm24_eq", "sub_asm64_eq", "increment_amd64_eq_generic", "add_amd64_eq_generic",
    "sub_amd64_eq_generic", "increment_exact", "add_exact", "sub_exact", "memzero_exact"]]
RULE = ("op lines over lengths 0..130: equal pairs, pairs differing in one bit at every position, one byte, carry chains "
        "of every length, random; exhaustive 1-byte pairs and (thorough) 2^26 of the 2^32 2-byte pairs (256 ranges spread over the space) as range ops with running "
        "digests; a case is non-trivial if distinct as an op line")
ASSUMPTIONS = ["explicit_bzero (libc) zeroes the bytes it is given: sodium_memzero is modelled as an external call"]


def configs(tier):
    if tier == "quick":
        # "for all buffers": the operand ADDRESS is part of the quantifier (word-at-a-time or vector rewrites behave differently on
        # misaligned pointers), so the whole op set is also run with every buffer placed 1 / 4 / 7 bytes past a malloc boundary
        return [("native", "", "plain"), ("portable", "", "plain")] + [("native", "", "plain", {"HX_ALIGN": str(k)}) for k in (1, 4, 7)] + \
               [("portable", "", "plain", {"HX_ALIGN": "3"})]
    return [(v, "", "plain") for v in vcore.VARIANTS] + [("native", vcore.ALL_OFF, "plain"), ("native", "", "asan")] + \
           [("native", "", "plain", {"HX_ALIGN": str(k)}) for k in range(1, 16)] + [("portable", "", "plain", {"HX_ALIGN": str(k)}) for k in (1, 3, 7)] + [("native", "", "asan", {"HX_ALIGN": "5"})]


def rb(rng, n):
    return bytes(rng.getrandbits(8) for _ in range(n))


def gen(ctx, tier, rng):
    L = []
    maxlen = 130
    lens = list(range(0, maxlen + 1))
    for n in lens:
        a = rb(rng, n)
        b = rb(rng, n)
        L.append("memcmp %s %s" % (hexs(a), hexs(a)))
        L.append("memcmp %s %s" % (hexs(a), hexs(b)))
        L.append("compare %s %s" % (hexs(a), hexs(b)))
        L.append("compare %s %s" % (hexs(a), hexs(a)))
        L.append("is_zero %s" % hexs(bytes(n)))
        L.append("is_zero %s" % hexs(a))
        L.append("increment %s" % hexs(a))
        L.append("increment %s" % hexs(b"\xff" * n))
        L.append("add %s %s" % (hexs(a), hexs(b)))
        L.append("sub %s %s" % (hexs(a), hexs(b)))
        L.append("sub %s %s" % (hexs(bytes(n)), hexs(b"\x01" + bytes(n - 1) if n else b"")))
        L.append("add %s %s" % (hexs(b"\xff" * n), hexs(b"\x01" + bytes(n - 1) if n else b"")))
        # carry chains of every length k <= n
        ks = range(0, n + 1) if (tier == "thorough" or n in (8, 12, 24, 64) or n <= 16) else [0, 1, n // 2, n - 1, n]
        for k in ks:
            x = b"\xff" * k + rb(rng, n - k)
            L.append("increment %s" % hexs(x))
            one = (b"\x01" + bytes(n - 1)) if n else b""
            L.append("add %s %s" % (hexs(x), hexs(one)))
            z = bytes(k) + rb(rng, n - k)
            L.append("sub %s %s" % (hexs(z), hexs(one)))
        # the wrap cases of the per-byte step: the carry / borrow arriving at a run where the SECOND operand is all-ones (resp. the sum is
        # all-ones): b = (low part forcing a carry or borrow) || ff*r || rest, for every run start and several run lengths
        for s_ in (range(0, n) if (tier == "thorough" or n <= 40) else [0, 1, 7, 8, 9, 15, 16, 17, 31, 32, n - 9, n - 8, n - 1]):
            if s_ < 0 or s_ >= n:
                continue
            for r in sorted(set([1, 2, 7, 8, 9, 16, n - s_ - 1, n - s_]) & set(range(1, n - s_ + 1))):
                lo_a = bytes(s_); lo_b = (b"\x01" + bytes(s_ - 1)) if s_ else b""
                rest = rb(rng, n - s_ - r)
                bb = lo_b + b"\xff" * r + rest
                aa = lo_a + rb(rng, r) + rb(rng, n - s_ - r)
                L.append("sub %s %s" % (hexs(aa), hexs(bb)))                  # borrow (if s_ > 0) reaches an all-ones run of b
                L.append("sub %s %s" % (hexs(bytes(n)), hexs(bb)))
                aa2 = (b"\xff" * s_) + rb(rng, n - s_)
                L.append("add %s %s" % (hexs(aa2), hexs(bb)))                  # carry reaches an all-ones run of b
                L.append("add %s %s" % (hexs(bb), hexs(aa2)))
        # one-bit differences at every position
        step = 1 if (tier == "thorough" or n <= 24 or n == 64) else 7
        for bit in range(0, 8 * n, step):
            c = bytearray(a)
            c[bit // 8] ^= 1 << (bit % 8)
            c = bytes(c)
            L.append("memcmp %s %s" % (hexs(a), hexs(c)))
            L.append("compare %s %s" % (hexs(a), hexs(c)))
            L.append("compare %s %s" % (hexs(c), hexs(a)))
            z = bytearray(n)
            z[bit // 8] ^= 1 << (bit % 8)
            L.append("is_zero %s" % hexs(bytes(z)))
        # memzero inside a larger buffer with sentinels
        if n <= 40:
            m = bytes((i * 7 + 1) % 255 + 1 for i in range(n + 9))
            for off in (0, 3, 9):
                L.append("memzero %s %d %d" % (hexs(m), off, n))
    for n in (16, 32, 64):
        for _ in range(8):
            a = rb(rng, n)
            L.append("verify%d %s %s" % (n, hexs(a), hexs(a)))
            L.append("verify%d %s %s" % (n, hexs(a), hexs(rb(rng, n))))
        a = rb(rng, n)
        for bit in range(8 * n):
            c = bytearray(a)
            c[bit // 8] ^= 1 << (bit % 8)
            L.append("verify%d %s %s" % (n, hexs(a), hexs(bytes(c))))
        for i in range(n):  # whole-byte and 32-bit-lane differences (SSE2 body compares 32-bit lanes)
            c = bytearray(a)
            c[i] ^= 0xff
            L.append("verify%d %s %s" % (n, hexs(a), hexs(bytes(c))))
    # accumulator-cancellation patterns: every OR-accumulate loop of the model gets inputs whose individual
    # differences would cancel under XOR / ADD accumulation (two equal masks at two positions, three masks a, b, a^b)
    for n in (16, 32, 64):
        a = rb(rng, n)
        for i in range(n):
            for j in range(i + 1, n):
                for mask in (0x01, 0x80, 0xff):
                    if not (tier == "thorough" or (j - i) % 16 == 0 or mask == 0x80 or (i + j) % 5 == 0):
                        continue
                    c = bytearray(a)
                    c[i] ^= mask
                    c[j] ^= mask
                    L.append("verify%d %s %s" % (n, hexs(a), hexs(bytes(c))))
        if n >= 48:
            for k in range(16):
                for (l1, l2, l3) in ((0, 1, 2), (0, 1, 3), (1, 2, 3), (0, 2, 3)):
                    c = bytearray(a)
                    m1, m2 = rng.randrange(1, 256), rng.randrange(1, 256)
                    c[16 * l1 + k] ^= m1
                    c[16 * l2 + k] ^= m2
                    c[16 * l3 + k] ^= (m1 ^ m2) or 1
                    L.append("verify%d %s %s" % (n, hexs(a), hexs(bytes(c))))
    for n in list(range(2, 41)) + [63, 64, 65, 128]:
        a = rb(rng, n)
        pairs = [(i, j) for i in range(n) for j in range(i + 1, n)]
        if tier != "thorough" and len(pairs) > 120:
            pairs = rng.sample(pairs, 120)
        for (i, j) in pairs:
            for mask in (0x01, 0x80):
                c = bytearray(a)
                c[i] ^= mask
                c[j] ^= mask
                L.append("memcmp %s %s" % (hexs(a), hexs(bytes(c))))
            z = bytearray(n)
            z[i], z[j] = 0x80, 0x80
            L.append("is_zero %s" % hexs(bytes(z)))
            x = rng.randrange(1, 256)
            z[i], z[j] = x, (256 - x) % 256
            L.append("is_zero %s" % hexs(bytes(z)))
    # exhaustive 1-byte operand pairs
    L.append("enum.c14 1 0 65536")
    # 2-byte operand pairs: sampled ranges in quick, everything in thorough
    if tier == "thorough":
        # 2^26 of the 2^32 pairs: 256 ranges of 2^18 spread over the whole space (all 2^32 through the Lean model and the ASan build would take hours)
        step = 1 << 24
        for lo in range(0, 1 << 32, step):
            off = rng.randrange(0, step - (1 << 18))
            L.append("enum.c14 2 %d %d" % (lo + off, lo + off + (1 << 18)))
    else:
        for _ in range(64):
            lo = rng.randrange(0, (1 << 32) - 65536)
            L.append("enum.c14 2 %d %d" % (lo, lo + 65536))
    return L


def MODEL_RUN(ctx, lines):
    return vcore.run_model_parallel(ctx, lines)


def enum_case(line, idx):
    p = line.split(" ")
    n = int(p[1])
    a = (idx % (1 << (8 * n))).to_bytes(n, "little")
    b = (idx >> (8 * n)).to_bytes(n, "little")
    return "case.c14 %s %s" % (hexs(a), hexs(b))


def _le(b):
    return int.from_bytes(b, "little")


def predicate(ctx, line, impl, model):
    """Evaluate the property itself (big-integer arithmetic) on the implementation's answer."""
    p = line.split(" ")
    op = p[0]
    bx = lambda s: b"" if s == "-" else bytes.fromhex(s)
    try:
        if op in ("memcmp", "verify16", "verify32", "verify64"):
            exp = "0" if bx(p[1]) == bx(p[2]) else "-1"
        elif op == "compare":
            a, b = _le(bx(p[1])), _le(bx(p[2]))
            exp = str((a > b) - (a < b))
        elif op == "is_zero":
            exp = "1" if not any(bx(p[1])) else "0"
        elif op == "increment":
            a = bx(p[1])
            exp = hexs(((_le(a) + 1) % (1 << (8 * len(a)))).to_bytes(len(a), "little")) if a else "-"
        elif op in ("add", "sub"):
            a, b = bx(p[1]), bx(p[2])
            v = _le(a) + _le(b) if op == "add" else _le(a) - _le(b)
            exp = hexs((v % (1 << (8 * len(a)))).to_bytes(len(a), "little")) if a else "-"
        elif op == "memzero":
            m = bytearray(bx(p[1]))
            off, n = int(p[2]), int(p[3])
            m[off:off + n] = bytes(n)
            exp = hexs(bytes(m))
        else:
            return True, "implementation differs from the proved model"
    except Exception as e:  # malformed -> fall back
        return True, "implementation differs from the proved model (%s)" % e
    if impl != exp:
        return True, "property predicate evaluated independently (big-integer arithmetic): expected %s, implementation returned %s" % (exp, impl)
    return False, "implementation agrees with the independent predicate but not with the model"
