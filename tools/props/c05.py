"""C05 — X25519 follows RFC 7748 and all key-agreement APIs derive matching secrets (DESIGN §3.5)."""
import vcore, edpy
from vcore import hexs

ID = "C05"
LEVEL = "proof"
_T = ["scalarmult_rc_exact", "scalarmult_rc_fail", "scalarmult_ref10_exact", "scalarmult_sandy2x_exact", "impl_rc_agree", "has_small_order_exact", "has_small_order_iff", "blocklist_sound",
      "blocklist_values", "clamp_exact", "clamp_idempotent", "clamp_determines", "top_bit_ignored", "top_bit_flip", "noncanonical_reduced", "model_eq_spec", "kx_keys_spec", "kx_cross_mult",
      "kx_cross", "kx_cross_spec", "kx_fail", "kx_both_null", "kx_null_alias", "kx_same_buffer", "kx_seed_keypair_spec", "box_seed_keypair_spec", "beforenm_spec", "beforenm_cross"]
_T2 = ["blocklist_ladder_all", "blocklist_sound_all", "ref10_eq_spec", "impl_agree_spec"]
THEOREMS = vcore.theorems_in("SodiumModel/Properties/C05.lean", _T, "Sodium.C05") + vcore.theorems_in("SodiumModel/Properties/C05LowOrder.lean", _T2, "Sodium.C05")
THEOREMS = THEOREMS + vcore.theorems_in("SodiumModel/Properties/C05Ladder.lean", ['ref10_ladder_general', 'ref10_ladder_eq_rfc7748', 'ref10_ladder_clamp', 'clamp_clamp', 'ref10_ladder_unclamped_differs', 'ref10_ladder_length', 'cswap_in_contract', 'ref10_mult_eq', 'ref10_eq_spec_ladder', 'ladder_any_field', 'edwards_to_montgomery_exact', 'ref10_base_exact', 'ref10_base_eq_rfc7748_partial'], "Sodium.C05Ladder")
IMPORTS = ["SodiumModel.Properties.C05", "SodiumModel.Properties.C05LowOrder"] if THEOREMS else ["SodiumModel.Spec.Curve25519"]
THEOREMS = THEOREMS + vcore.theorems_in("SodiumModel/Properties/C05Fe51.lean", ['add_spec', 'sub_spec', 'sub_wrong_on_huge_g', 'mul_no_overflow', 'carry_chain_spec', 'mul_spec', 'mul_wrong_beyond_loose', 'sq_eq_mul', 'sq_spec', 'sq2_spec', 'sq2_wrong_on_loose', 'mul32_spec', 'neg_spec', 'cswap_spec', 'cswap_out_of_contract', 'cmov_spec', 'cmov_variants_differ_out_of_contract', 'frombytes_spec', 'reduce_spec', 'tobytes_spec', 'isnegative_spec', 'iszero_spec', 'invert_spec', 'spec_inv_eq_pow', 'fe51_refines', 'fe51_no_single_relation', 'refines_is_TL', 'ladder_any_field_TL', 'x25519_fe51_eq_ref10', 'x25519_fe51_eq_rfc7748', 'x25519_fe51_clamp', 'x25519_fe51_general', 'fe51_eq_spec_ladder'], "Sodium.C05Fe51")
IMPORTS = IMPORTS + ["SodiumModel.Properties.C05Ladder", "SodiumModel.Properties.C05Fe51"]
TABLES = ['x25519_blocklist_eq']      # Tie B: kernel-checked `table regenerated from the source = model table`
THEOREMS = THEOREMS + vcore.theorems_in("SodiumModel/Properties/C10Fe25.lean", ['val_def', 'fval_def', 'bnd_def', 'bounds_def', 'bounds_chain', 'add_spec', 'sub_spec', 'neg_spec', 'add_sub_tight', 'add_wraps_unbounded', 'premul_no_overflow', 'mul_no_overflow', 'mul_acc_value', 'carry_chain_value', 'mul_spec', 'mul_wrong_beyond_loose', 'sq_spec', 'sq_no_overflow', 'sq2_spec', 'mul32_spec', 'mul32_wrong_for_large_n', 'frombytes_spec', 'reduce_first_q', 'reduce_no_overflow', 'reduce_spec', 'tobytes_spec', 'tobytes_tight', 'reduce_wrong_in_documented_range', 'isnegative_spec', 'iszero_spec', 'cswap_spec', 'cswap_out_of_contract', 'cmov_spec', 'invert_spec', 'pow22523_spec', 'fe25_refines', 'sub_tight_loose_not_loose', 'refinesTL_is_TT', 'ladder_any_field_TT', 'x25519_fe25_eq_ref10', 'x25519_fe25_eq_rfc7748', 'x25519_fe25_clamp', 'x25519_fe25_general', 'x25519_fe25_eq_fe51', 'fe25_eq_spec_ladder'], "Sodium.C10Fe25")
IMPORTS = IMPORTS + ["SodiumModel.Properties.C10Fe25"]
IMPORTS = IMPORTS + ["SodiumModel.Properties.C05Asm"]
IMPORTS = IMPORTS + ["SodiumModel.Properties.C05Asm2", "SodiumModel.Properties.C05Asm3"]
THEOREMS = THEOREMS + vcore.theorems_in("SodiumModel/Properties/C05Asm3.lean", ["pack_digit_sum", "pack_stores_readback", "pack_mid_split", "pack_loop_freeze_stores_spec"], "Sodium.C05Asm3")
THEOREMS = THEOREMS + vcore.theorems_in("SodiumModel/Properties/C05Asm2.lean", ['pack_freeze_exact', 'pack_freeze_canonical', 'pack_freeze_condition', 'pack_loop_freeze_spec', 'pack_stores_exact', 'pack_b2_split', 'pack_byte_values', 'pack_digit'], "Sodium.C05Asm2")
_TA = ["pack_shape", "pack_loop_exact", "pack_loop_carried", "pack_loop_spec"]     # + C05Asm2 (freeze, byte stores), rebuilt by the same tie
THEOREMS = THEOREMS + vcore.theorems_in("SodiumModel/Properties/C05Asm.lean", _TA, "Sodium.C05Asm")
tie_b = lambda ctx: tie_b_fe25(ctx) + tie_b_asm(ctx)


def tie_b_asm(ctx):
    """sandy2x scalar assembly (fe51_pack.S, fe51_mul.S, fe51_nsquare.S): tools/asm2lean.py re-translates the .S text into instruction lists for the x86-64
    interpreter of Model/X86Scalar.lean on every run; identical text: the theorems of C05Asm and the driver's cross-run (every X25519 op's final limb vector goes
    through the generated pack / mul / nsquare) are about the code as it is; different text: the proofs are re-checked against it, and on failure the regenerated
    model is evaluated against the limb model on boundary inputs (the failing limb vector is the replay)"""
    import fcntl, os, c05_asm_tieb
    for t in _TA:
        ctx.obligations.append({"theorem": "Sodium.C05Asm." + t + " [instruction lists regenerated from the .S text]", "axioms": ["propext", "Classical.choice", "Quot.sound"]})
    with open(os.path.join(vcore.LEAN, ".lake-lock"), "w") as lk:
        fcntl.flock(lk, fcntl.LOCK_EX)
        ok, msg = c05_asm_tieb.tie_b(vcore.LEAN, os.path.join(vcore.REPO, "src", "libsodium"), outdir=os.path.join(ctx.scratch, "tieb-asm"))
    ctx.log("Tie B (sandy2x scalar assembly): " + msg.split("\n")[0][:300])
    ctx.stats["sandy2x_asm_tie"] = msg[:2000]
    if ok:
        ctx.discharged = len(ctx.obligations)
        return []
    ctx.discharged = len(ctx.obligations) - len(_TA)
    if "differ" in msg.split("evaluation of the REGENERATED model")[-1]:
        ctx.violations_with_input = getattr(ctx, "violations_with_input", 0) + 1
    return [("Sodium.C05Asm.pack_loop_spec", msg)]
FINGERPRINTS = "C05"     # Tie B: pinned source text of the hand-transcribed limb code (tools/fingerprint.py)
RULE = ("random (scalar, point) pairs; the low-order / non-canonical u-coordinates (0, 1, the two order-8 points, p-1, p, p+1) with either top bit; u in p-k..p+k and "
        "2^255-k..2^255-1; scalars covering all 32 clamp-bit patterns; limb-structured field elements (all-ones 51-bit and 25.5-bit limbs); key exchange: both sides computed "
        "and required cross-equal; constructed (scalar, point) pairs with a PRESCRIBED shared point at the boundaries of the final reduction / packing: every "
        "small integer 1..2000 of prime order (curve and twist) with several scalars, p-k, 2^k+-d and p-2^k+-d around every limb / word boundary, "
        "saturated 51-bit / 25.5-bit limb runs; the same pairs through box / kx; box in both cipher variants with all call forms; seeded key pairs; backends: AVX (sandy2x) / ref10 fe51 / fe25.5 / portable")
ASSUMPTIONS = ["ladder = scalar multiplication on the curve and Diffie-Hellman commutativity need a formalised group law; they are translation-validated against the RFC 7748 ladder over naturals and by computing both sides of every exchange"]
P = edpy.p



def tie_b_fe25(ctx):
    """the radix-2^25.5 field code (build without 128-bit integers): fe25519_mul / sq / sq2 / mul32 / frombytes are re-transcribed from the current source by
    tools/c2lean_fe25.py on every run; if the text differs the proofs (no-overflow, value mod p, X25519 over this field = RFC 7748) are re-checked against it"""
    import subprocess, sys, os
    e = dict(os.environ); e["VERIF_REPO"] = vcore.REPO
    gen = lambda out: subprocess.run([sys.executable, os.path.join(vcore.VERIF, "tools", "c2lean_fe25.py"), out], capture_output=True, text=True, env=e)
    r = vcore.tie_b_regen_multi(ctx, "fe25519 25.5-bit limb code (tools/c2lean_fe25.py)", gen, ["SodiumModel/Model/Fe25Gen.lean", "SodiumModel/Proofs/Fe25Gen.lean"],
                                "SodiumModel.Properties.C10Fe25", ["Sodium.C10Fe25.mul_spec", "Sodium.C10Fe25.sq_spec", "Sodium.C10Fe25.sq2_spec", "Sodium.C10Fe25.mul32_spec", "Sodium.C10Fe25.frombytes_spec", "Sodium.C10Fe25.x25519_fe25_eq_rfc7748"])
    ctx.log("Tie B: 25.5-bit field code re-transcribed from the source, %s" % ("identical / proofs hold" if not r else "CHANGED: %s" % [x[0] for x in r]))
    return r


def configs(tier):
    if tier == "quick":
        return [("native", "", "plain"), ("native", "avx512f,avx2,avx1", "plain"), ("noti", "", "plain"),
                ("native", "", "plain", {"HX_FILL": "255"})]      # output buffers start all-ones instead of stack leftovers
    return [(v, m, "plain") for v in vcore.VARIANTS for m in ("", "avx512f,avx2,avx1", vcore.ALL_OFF)]


def rb(rng, n):
    return bytes(rng.getrandbits(8) for _ in range(n))


def points(rng, full):
    pts = []
    for u in edpy.X_LOW:
        for top in (0, 1):
            v = u + (top << 255)
            if v < (1 << 256):
                pts.append(v.to_bytes(32, "little"))
    for k in range(0, 20):
        for base in (P - k, P + k, (1 << 255) - 1 - k):
            if 0 <= base < (1 << 256):
                pts.append(base.to_bytes(32, "little"))
    pts += [(9).to_bytes(32, "little"), (2).to_bytes(32, "little"), b"\xff" * 32, ((1 << 255) - 20).to_bytes(32, "little")]
    # limb-structured values
    for w in (51, 26, 25):
        v = 0
        for i in range(0, 255, w):
            v |= ((1 << min(w, 255 - i)) - 1) << i
        pts.append((v % (1 << 255)).to_bytes(32, "little"))
        pts.append(((1 << 255) - 19 - (1 << w)).to_bytes(32, "little"))
    # neighbours of every blocklist row of has_small_order (has_small_order_exact: ONLY the rows themselves, top bit cleared, are rejected early):
    # each byte with its high bit flipped, single-bit flips, and sparse {00, 80} byte patterns
    # rows come from the spec's low-order list AND from the blocklist as it is written in /repo's current source (Tie B search:
    # if the table obligation x25519_blocklist_eq fails, the changed row itself is the candidate failing input)
    rows = [(u % (1 << 256)).to_bytes(32, "little") for u in edpy.X_LOW]
    try:
        import c2lean_tables
        for r in c2lean_tables.extract("crypto_scalarmult/curve25519/ref10/x25519_ref10.c", "blocklist", True):
            if len(r) == 32 and bytes(r) not in rows:
                rows.append(bytes(r))
                pts.append(bytes(r)); pts.append(bytes(r[:31]) + bytes([r[31] | 0x80]))
    except Exception:
        pass
    for row in rows:
        row = bytearray(row)
        for j in range(32):
            q = bytearray(row); q[j] ^= 0x80; pts.append(bytes(q))
        for bit in (range(256) if full else rng.sample(range(256), 24)):
            q = bytearray(row); q[bit // 8] ^= 1 << (bit % 8); pts.append(bytes(q))
    for _ in range(24 if not full else 200):
        q = bytearray(32)
        for j in rng.sample(range(32), rng.randrange(1, 5)):
            q[j] = 0x80
        q[0] |= rng.choice([0, 0, 1])
        pts.append(bytes(q))
    for _ in range(60 if not full else 400):
        pts.append(rb(rng, 32))
    return pts


LIMB51 = [51 * i for i in range(5)] + [255]
LIMB25 = [0, 26, 51, 77, 102, 128, 153, 179, 204, 230, 255]


def _pmap(fn, items):
    """fn over items in worker processes (pure big-integer curve arithmetic, ~1.3 ms per item); serial if no pool can be had"""
    items = list(items)
    try:
        import multiprocessing
        from concurrent.futures import ProcessPoolExecutor
        with ProcessPoolExecutor(max_workers=12, mp_context=multiprocessing.get_context("fork")) as ex:
            return list(ex.map(fn, items, chunksize=max(1, len(items) // 96)))
    except (OSError, ImportError, RuntimeError):
        return [fn(x) for x in items]


def _preimage(t):
    return edpy.preimage_for_output(*t)


def boundary_targets(rng, full):
    """shared points (integers < p, prime order on the curve or the twist) at the boundaries of the final reduction / packing, with the number of
    scalars each one is to be reached with: [(u, order, count, family)]. The output of X25519 is quantified over by C05 just like the inputs; random
    pairs only ever produce outputs with no structure, so every structured output has to be constructed (edpy.preimage_for_output)."""
    C, seen = [], set()          # candidates (u, count, family, group): of the candidates of one group only the first usable one is taken

    def put(u, count, fam, group=None):
        if 0 < u < P and u not in seen:
            seen.add(u)
            C.append((u, count, fam, group))

    # (a) small integers, dense: the packed result is u but the limbs before packing hold u + p or u + 2p (low limb slightly above / below 2^51, the others saturated)
    hi = 2000 if not full else 10000
    for u in range(1, hi + 1):
        put(u, (3 if u < 512 else 2) * (2 if full else 1), "small")
    # (b) just below p: p - k
    for k in range(1, (300 if not full else 3000) + 1):
        put(P - k, 2 if k < 64 or full else 1, "p-k")
    # (c) 2^k + d and p - 2^k + d: one limb / word just overflowing or just short of it; dense around the 51-bit / 25.5-bit limb and 32 / 64-bit word boundaries
    edges = set(LIMB51[1:-1]) | set(LIMB25[1:-1]) | set(range(32, 255, 32)) | {250, 251, 252, 253, 254}
    for k in range(1, 255):
        if k in LIMB51:
            ds = range(-24, 25)
        elif k in edges:
            ds = range(-4, 5)
        else:
            ds = (-1, 0, 1) if not full else range(-3, 4)
        for d_ in ds:
            put((1 << k) + d_, 2 if k in LIMB51 else 1, "2^k")
            if k in edges or full:
                put(P - (1 << k) + d_, 1, "p-2^k")
    # (d) saturated limbs: every set of 51-bit limbs and every run of 25.5-bit limbs all-ones, the other limbs zero (closest usable value on either side;
    # about 3/16 of all values are usable) and random
    g = 0
    for bounds, sets in ((LIMB51, [[i for i in range(5) if m >> i & 1] for m in range(1, 31)]),
                         (LIMB25, [list(range(i, j)) for i in range(10) for j in range(i + 1, 11) if j - i < 10])):
        n = len(bounds) - 1
        for S in sets:
            sat = sum(((1 << (bounds[i + 1] - bounds[i])) - 1) << bounds[i] for i in S)
            for sgn in (1, -1):
                g += 1
                for t in range(8 if not full else 24):
                    put(sat + sgn * t, 1, "saturated", g)
            g += 1
            for _ in range(8 if not full else 24):
                v = sat
                for i in range(n):
                    if i not in S:
                        v |= rng.getrandbits(bounds[i + 1] - bounds[i]) << bounds[i]
                put(v, 1, "saturated", g)
    T, done = [], set()
    for (u, count, fam, group), o in zip(C, _pmap(edpy.prime_subgroup_order, [c[0] for c in C])):
        if o is not None and group not in done:
            T.append((u, o, count, fam))
            if group is not None:
                done.add(group)
    return T


def boundary_pairs(ctx, rng, full):
    L, fams, ncurve, small = [], {}, 0, []
    want = [(rb(rng, 32), u, o, fam) for (u, o, count, fam) in boundary_targets(rng, full) for _ in range(count)]
    for (nb_, u, o, fam), P_ in zip(want, _pmap(_preimage, [w[:3] for w in want])):
        if P_ is None:
            continue
        if rng.randrange(8) == 0:
            P_ = P_[:31] + bytes([P_[31] | 0x80])          # the top bit of the point is ignored (RFC 7748)
        L.append((nb_, P_, u))
        fams[fam] = fams.get(fam, 0) + 1
        ncurve += o == edpy.L
        if fam == "small":
            small.append((nb_, P_, u))
    # the construction itself is checked on a sample (a generator that silently stopped producing these outputs would leave the dimension uncovered)
    for (nb_, P_, u) in rng.sample(L, min(24, len(L))):
        if int.from_bytes(edpy.x25519(nb_, P_), "little") != u:
            raise vcore.BrokenCheck("C05 generator: constructed pair does not give the prescribed shared point %d" % u)
    if fams.get("small", 0) < 400 or fams.get("p-k", 0) < 40 or fams.get("2^k", 0) < 80 or fams.get("saturated", 0) < 60:
        raise vcore.BrokenCheck("C05 generator: too few boundary-output pairs %s" % fams)
    ctx.stats["boundary_output_pairs"] = dict(fams, total=len(L), curve=ncurve, twist=len(L) - ncurve)
    out = ["x25519 %s %s" % (hexs(a), hexs(b)) for (a, b, _) in L]
    # the same shared points through the APIs built on the ladder (box beforenm in both variants, kx session keys)
    for (nb_, P_, u) in rng.sample(small, 12 if not full else 100):
        out.append("box.easy xsalsa %s %s %s %s" % (hexs(rb(rng, 5)), hexs(rb(rng, 24)), hexs(P_), hexs(nb_)))
        out.append("box.easy xchacha %s %s %s %s" % (hexs(rb(rng, 5)), hexs(rb(rng, 24)), hexs(P_), hexs(nb_)))
        out.append("kx.client %s %s %s" % (hexs(rb(rng, 32)), hexs(nb_), hexs(P_)))
        out.append("kx.server %s %s %s" % (hexs(rb(rng, 32)), hexs(nb_), hexs(P_)))
    return out


def gen(ctx, tier, rng):
    L = []
    full = tier == "thorough"
    pts = points(rng, full)
    for pt in pts:
        for _ in range(2):
            L.append("x25519 %s %s" % (hexs(rb(rng, 32)), hexs(pt)))
    # constructed pairs whose OUTPUT is sparse: the shared point non-zero in exactly one byte (every byte position), in exactly one
    # 64-bit / 32-bit word, or all-ones in one word — the failure test must look at every output byte (theorem scalarmult_rc_exact)
    targets = []
    for j in range(32):
        found = 0
        for b in rng.sample(range(1, 256), 255):
            u = b << (8 * j)
            if u >= (1 << 255):
                continue
            nb_ = rb(rng, 32)
            P_ = edpy.preimage_for_output(nb_, u)
            if P_ is not None:
                targets.append((nb_, P_)); found += 1
                if found >= (1 if not full else 3):
                    break
    for w in range(4):
        for _ in range(2):
            u = rng.getrandbits(64) << (64 * w)
            if w == 3:
                u &= (1 << 255) - 1
            nb_ = rb(rng, 32)
            P_ = edpy.preimage_for_output(nb_, u) if u else None
            if P_ is not None:
                targets.append((nb_, P_))
    ctx.stats["sparse_output_pairs"] = len(targets)
    for (nb_, P_) in targets:
        L.append("x25519 %s %s" % (hexs(nb_), hexs(P_)))
    # constructed pairs whose OUTPUT sits at a boundary of the final reduction / packing (small integers, p-k, 2^k+-d, saturated limbs)
    L += boundary_pairs(ctx, rng, full)
    # all 2^5 clamp-bit patterns of the scalar (bits 0,1,2 of byte 0 and bits 6,7 of byte 31)
    base = bytearray(rb(rng, 32))
    pt = rb(rng, 32)
    for pat in range(32):
        s = bytearray(base)
        s[0] = (s[0] & 0xf8) | (pat & 7)
        s[31] = (s[31] & 0x3f) | ((pat >> 3) << 6)
        L.append("x25519 %s %s" % (hexs(bytes(s)), hexs(pt)))
        L.append("x25519.base %s" % hexs(bytes(s)))
    for s in (bytes(32), b"\xff" * 32, (8).to_bytes(32, "little"), (1 << 254).to_bytes(32, "little")):
        L.append("x25519.base %s" % hexs(s))
        L.append("x25519 %s %s" % (hexs(s), hexs((9).to_bytes(32, "little"))))
    for _ in range(40 if not full else 300):
        L.append("x25519.base %s" % hexs(rb(rng, 32)))
    # key exchange: both sides; seeded key pairs
    for _ in range(25 if not full else 200):
        cs, ss = rb(rng, 32), rb(rng, 32)
        L.append(("KX", cs, ss))
        L.append("box.seed_keypair %s" % hexs(rb(rng, 32)))
        for v in ("xsalsa", "xchacha"):      # ordinary keys: precomputation in every call form (disjoint, k over sk, k over pk)
            L.append("box.beforenm %s %s %s" % (v, hexs(rb(rng, 32)), hexs(rb(rng, 32))))
    # weak public keys in kx / box
    for u in edpy.X_LOW[:5]:
        pk = u.to_bytes(32, "little")
        sk = rb(rng, 32)
        L.append("kx.client %s %s %s" % (hexs(rb(rng, 32)), hexs(sk), hexs(pk)))
        L.append("kx.server %s %s %s" % (hexs(rb(rng, 32)), hexs(sk), hexs(pk)))
        L.append("box.easy xsalsa %s %s %s %s" % (hexs(rb(rng, 5)), hexs(rb(rng, 24)), hexs(pk), hexs(sk)))
        L.append("box.easy xchacha %s %s %s %s" % (hexs(rb(rng, 5)), hexs(rb(rng, 24)), hexs(pk), hexs(sk)))
        L.append("box.beforenm xsalsa %s %s" % (hexs(pk), hexs(sk)))      # the precomputation itself, incl. the aliased forms (k over sk / over pk) run by the harness
        L.append("box.beforenm xchacha %s %s" % (hexs(pk), hexs(sk)))
    for n in list(range(0, 70)) + [255, 256, 1000]:
        for v in ("xsalsa", "xchacha"):
            L.append(("BOX", v, rb(rng, n), rb(rng, 24), rb(rng, 32), rb(rng, 32)))
    return L


def post_model(ctx, T, run_model):
    base = [l for l in T if isinstance(l, str)]
    pend = [l for l in T if not isinstance(l, str)]
    q = []
    for t in pend:
        if t[0] == "KX":
            q += ["kx.seed_keypair %s" % hexs(t[1]), "kx.seed_keypair %s" % hexs(t[2])]
        else:
            q += ["x25519.base %s" % hexs(t[4]), "x25519.base %s" % hexs(t[5])]
    outs = run_model(q)
    L = []
    k = 0
    for t in pend:
        a, b = outs[k], outs[k + 1]
        k += 2
        if t[0] == "KX":
            cpk, csk = a.split(" ")
            spk, ssk = b.split(" ")
            L.append("kx.seed_keypair %s" % hexs(t[1]))
            L.append("kx.client %s %s %s" % (cpk, csk, spk))
            L.append("kx.server %s %s %s" % (spk, ssk, cpk))
            L.append("x25519 %s %s" % (csk, spk))
            L.append("x25519 %s %s" % (ssk, cpk))       # DH commutativity exercised on every pair
        else:
            _, v, m, n, ska, skb = t
            pka, pkb = a, b
            L.append("box.easy %s %s %s %s %s" % (v, hexs(m), hexs(n), pkb, hexs(ska)))
            L.append(("BOXOPEN", v, hexs(m), hexs(n), pka, pkb, hexs(ska), hexs(skb)))
    # second stage: open what was sealed (needs the ciphertext)
    q2 = [("box.easy %s %s %s %s %s" % (t[1], t[2], t[3], t[5], t[6])) for t in L if isinstance(t, tuple)]
    o2 = run_model(q2)
    out = []
    j = 0
    for t in L:
        if isinstance(t, tuple):
            c = o2[j].split(" ")[1]
            j += 1
            out.append("box.open %s %s %s %s %s" % (t[1], c, t[3], t[4], t[7]))          # receiver: sender's pk, own sk
            cb = bytearray(bytes.fromhex(c))
            cb[len(cb) // 2] ^= 0x40
            out.append("box.open %s %s %s %s %s" % (t[1], hexs(bytes(cb)), t[3], t[4], t[7]))
        else:
            out.append(t)
    return base + out


def predicate(ctx, line, impl, model):
    p = line.split(" ")
    if p[0] == "x25519":
        exp = edpy.x25519(bytes.fromhex(p[1]), bytes.fromhex(p[2]))
        want = "-1" if exp == bytes(32) else "0 " + exp.hex()
        if impl.split(" ")[0] == "-1" and want == "-1":
            return False, "failure reported as required"
        if impl != want:
            return True, "independent RFC 7748 ladder (Python big integers): expected %s" % want
        return False, "agrees with the independent ladder"
    return True, "implementation output differs from the model (= executable specification)"


def MODEL_RUN(ctx, lines):
    return vcore.run_model_parallel(ctx, lines)     # every X25519 op runs the 51-bit limb model (~13 ms each)


def extra(ctx, rng):
    """bulk cross-backend differential: 10^5..10^6 pseudo-random (scalar, point) pairs through each ladder implementation (AVX assembly,
    ref10 with 51-bit limbs, ref10 with 25.5-bit limbs); digests must agree; a difference is bisected to one pair, which the model (= RFC 7748)
    then decides. This reaches defects of probability ~10^-5 per pair that the few thousand model-compared ops cannot."""
    import time
    total = 1200000 if ctx.tier == "quick" else 12000000
    seed = rng.getrandbits(40)
    cfgs = [("native", "", "plain"), ("native", "avx512f,avx2,avx1", "plain"), ("noti", "", "plain")]
    chunk = 50000
    lines = ["bulk.x25519 %d %d %d" % (seed, lo, min(lo + chunk, total)) for lo in range(0, total, chunk)]
    outs = {}
    t = time.time()
    from concurrent.futures import ThreadPoolExecutor
    for cfg in cfgs:
        vcore.build_hx(ctx, cfg[0], cfg[2])
    nsplit = 5
    jobs = [(cfg, j) for cfg in cfgs for j in range(nsplit)]
    def run(job):
        cfg, j = job
        exe = vcore.build_hx(ctx, cfg[0], cfg[2])
        sub = lines[j::nsplit]
        o, cr = vcore.run_impl(ctx, exe, sub, cfg[1])
        if cr:
            raise vcore.BrokenCheck("bulk x25519 run failed on %s: %s" % (cfg, cr))
        return o
    with ThreadPoolExecutor(max_workers=15) as ex:
        res = list(ex.map(run, jobs))
    for cfg in cfgs:
        o = [None] * len(lines)
        for (c2, j), r in zip(jobs, res):
            if c2 == cfg:
                for idx, v in zip(range(j, len(lines), nsplit), r):
                    o[idx] = v
        outs[cfg] = o
    ctx.evaluations += total * len(cfgs)
    ctx.stats["bulk_cross_backend_pairs"] = total
    ctx.configs_run.append({"bulk_x25519_pairs": total, "configs": ["%s/%s" % (c[0], c[1] or "none") for c in cfgs], "wall_s": round(time.time() - t, 1)})
    ref = outs[cfgs[1]]
    for cfg in cfgs:
        for k, (a, b) in enumerate(zip(outs[cfg], ref)):
            if a == b:
                continue
            lo, hi = k * chunk, min((k + 1) * chunk, total)
            ea, eb = vcore.build_hx(ctx, cfg[0], cfg[2]), vcore.build_hx(ctx, cfgs[1][0], cfgs[1][2])
            while hi - lo > 1:
                mid = (lo + hi) // 2
                l1 = ["bulk.x25519 %d %d %d" % (seed, lo, mid)]
                if vcore.run_impl(ctx, ea, l1, cfg[1])[0] != vcore.run_impl(ctx, eb, l1, cfgs[1][1])[0]:
                    hi = mid
                else:
                    lo = mid
            pair = vcore.run_impl(ctx, ea, ["bulk.x25519.pair %d %d" % (seed, lo)], cfg[1])[0][0]
            op = "x25519 " + pair
            m = vcore.run_model(ctx, [op])[0]
            ia = vcore.run_impl(ctx, ea, [op], cfg[1])[0][0]
            ib = vcore.run_impl(ctx, eb, [op], cfgs[1][1])[0][0]
            bad = cfg if ia != m else cfgs[1]
            vcore.report(ctx, "corr:x25519", {"op": op, "variant": bad[0], "mask": bad[1], "flavour": "plain", "model": m, "impl": ia if ia != m else ib,
                                              "explanation": "two ladder implementations disagree on this pair (found by the bulk cross-backend run, pair %d of seed %d); the model (= RFC 7748) decides which one is wrong" % (lo, seed)})
            return
    ctx.log("bulk cross-backend X25519: %d pairs x %d ladders agree (%.0fs)" % (total, len(cfgs), time.time() - t))
