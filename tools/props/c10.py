"""C10 — results do not depend on CPU features, selected backend or build configuration (DESIGN §3.10)."""
import importlib, json, os, random, subprocess, time
import vcore
import re
import c2lean_pickers

ID = "C10"
LEVEL = "proof"
_T = ["decode_sound", "decode_chain", "decode_no_cpuid", "gcm_available_iff", "allSound_spec", "fallback_spec"]
THEOREMS = vcore.theorems_in("SodiumModel/Properties/C10.lean", _T, "Sodium.C10")
IMPORTS = ["SodiumModel.Properties.C10", "SodiumModel.Properties.C10Fe25"]
# the build WITHOUT 128-bit integers: the radix-2^25.5 field code is modelled and proved to be GF(2^255-19); X25519 over it = RFC 7748 = X25519 over the 51-bit code
THEOREMS = THEOREMS + vcore.theorems_in("SodiumModel/Properties/C10Fe25.lean", ["mul_no_overflow", "mul_spec", "sq_spec", "sq2_spec", "mul32_spec", "frombytes_spec", "reduce_spec", "tobytes_spec",
                                        "tobytes_tight", "invert_spec", "pow22523_spec", "fe25_refines", "x25519_fe25_eq_rfc7748", "x25519_fe25_eq_fe51"], "Sodium.C10Fe25")
# Poly1305 of the same build (donna32, for 32- and 64-bit `unsigned long`) = spec = donna64; the byte-shift load / store fallbacks of common.h (builds without NATIVE_LITTLE_ENDIAN) = the memcpy forms
THEOREMS = THEOREMS + vcore.theorems_in("SodiumModel/Properties/C10Donna32.lean", ['wok64', 'wok32', 'init_spec32', 'init_inv32', 'blocks_spec32', 'blocks_no_overflow32', 'blocks_width_indep', 'finish_spec32', 'donna32_eq_abstract', 'donna32_mac_eq_specW', 'donna32_mac_eq_spec', 'donna32_mac_oneshot', 'donna32_ilp32_mac_eq_spec', 'donna32_lp64_eq_ilp32', 'donna32_eq_donna64', 'load64_le_shift_eq', 'store64_le_shift_eq', 'load32_le_shift_eq', 'store32_le_shift_eq', 'store64_be_shift_eq', 'store32_be_shift_eq', 'load64_be_shift_eq', 'load32_be_shift_eq', 'load32_be_short_differs', 'load64_le_shift_val', 'load32_le_shift_val', 'load64_be_shift_val', 'load32_be_shift_val', 'store64_le_shift_val', 'store32_le_shift_val', 'store64_be_shift_val', 'store32_be_shift_val', 'load64_le_store64_le', 'load32_be_store32_be', 'donna32_LOAD32_LE_shift', 'donna64_LOAD64_LE_shift', 'store32_shift', 'store64_shift', 'siphash_load64le_shift', 'chacha_load32le_shift', 'chacha_store32le_shift'], "Sodium.C10Donna32")
IMPORTS = IMPORTS + ["SodiumModel.Properties.C10Donna32"]
# AEGIS-128L / AEGIS-256 on the two AES backends: the generic *_common.h code instantiated with the AES-NI intrinsics and with the table-based software AES are both modelled in the
# C's structure and proved equal to the specification, hence to each other, for EVERY message / AD length below 2^61 (the length block's two 64-bit bit-lengths included:
# *_load64x2_order). C10's "same bytes whichever backend is selected" for AEGIS rests on these theorems at the lengths no run can afford (the upper halves of the bit lengths are
# non-zero only from 512 MiB on), so they are audited here too and the source text they were transcribed from is pinned for this check as well (FINGERPRINTS below).
THEOREMS = THEOREMS + vcore.theorems_in("SodiumModel/Properties/C01Aegis.lean", ['soft_backend_ok', 'softaes_block_encrypt_is_aes_round', 'softaes_load_store', 'softaes_load64x2_order',
                                        'aegis128l_mac_eq', 'aegis256_mac_eq', 'aegis128l_encrypt_detached_generic', 'aegis256_encrypt_detached_generic',
                                        'crypto_aead_aegis128l_encrypt_detached_eq', 'crypto_aead_aegis256_encrypt_detached_eq',
                                        'crypto_aead_aegis128l_decrypt_detached_eq', 'crypto_aead_aegis256_decrypt_detached_eq'], "Sodium.C01Aegis")
THEOREMS = THEOREMS + vcore.theorems_in("SodiumModel/Properties/C01AegisAesni.lean", ['aesni_backend_ok', 'mm_aesenc_is_aes_round', 'aesni_load64x2_order', 'aesenc_eq_softaes',
                                        'crypto_aead_aegis128l_aesni_encrypt_detached_eq', 'crypto_aead_aegis256_aesni_encrypt_detached_eq',
                                        'crypto_aead_aegis128l_aesni_decrypt_detached_eq', 'crypto_aead_aegis256_aesni_decrypt_detached_eq',
                                        'aesni_eq_soft_128L', 'aesni_eq_soft_256', 'aesni_eq_soft', 'aesni_eq_soft_decrypt'], "Sodium.C01AegisAesni")
IMPORTS = IMPORTS + ["SodiumModel.Properties.C01Aegis", "SodiumModel.Properties.C01AegisAesni"]
tie_b = lambda ctx: tie_b_fe25(ctx)
FINGERPRINTS = "C10,C01"     # Tie B: C10's own pinned bodies (25.5-bit field code, donna32, common.h loads) AND the AEGIS / softaes / AES-NI / AES-256-GCM files the C01 backend models were transcribed from
RULE = ("(1) decoder co-simulation, exhaustive: all 2^18 combinations of the relevant CPUID/XCR0 bits through hook H2 against the Lean decoder, in the native build "
        "(XGETBV available) and the no-asm build (XCR0 unreadable); (2) Tie B: the picker decision lists and per-implementation target sets are regenerated from the source "
        "for every build variant and the kernel checks selection soundness over all 1024 feature sets; (3) reported flags with no mask are a subset of /proc/cpuinfo; "
        "(4) one shared deterministic corpus (sub-sampled op families of C01, C03, C04, C09, C14, C15, C16, C18) run on every configuration: 8 masks x native (+ 3 other "
        "variants in quick; 4 variants x 8 masks in thorough); every configuration's outputs must equal the model's; aes256gcm availability must equal pclmul & aesni & avx; "
        "(5) long operands, implementation against implementation: AEGIS-128L / AEGIS-256 with a zero-filled AD or message built inside the harness (2^20 bytes in quick; 2^29, 2^29 + 33 bytes of AD "
        "and 2^29 + 17 bytes of message in thorough, where the upper halves of the 64-bit bit lengths differ), sealed under no mask (AES-NI), under the all-off mask and in the portable build "
        "(software AES): identical ciphertext and tag, and each side opens what the other sealed; for all lengths the two backends are proved equal (C01Aegis / C01AegisAesni, audited here) "
        "and the source text those models transcribe is pinned (Tie B fingerprints of the C01 group)")
ASSUMPTIONS = ["assembly implementations (sandy2x: AVX; xmm6 Salsa20: x86-64 baseline) have their ISA requirement stated by hand in tools/c2lean_pickers.py",
               "architectural closure of feature sets (avx512f -> avx2 -> avx -> sse4.1 -> ssse3 -> sse3 -> sse2, aesni/pclmul -> sse2) is a hypothesis of selection soundness",
               "32-bit and big-endian targets are reached only as source paths (noti / portable variants) on this x86-64 host"]
SOURCES = ["c14", "c16", "c15", "c03", "c04", "c01", "c18", "c05", "c06", "c07", "c13", "c08"]



def tie_b_fe25(ctx):
    """the radix-2^25.5 field code (build without 128-bit integers): fe25519_mul / sq / sq2 / mul32 / frombytes are re-transcribed from the current source by
    tools/c2lean_fe25.py on every run; if the text differs the proofs (no-overflow, value mod p, X25519 over this field = RFC 7748) are re-checked against it"""
    import subprocess, sys, os
    e = dict(os.environ); e["VERIF_REPO"] = vcore.REPO
    gen = lambda out: subprocess.run([sys.executable, os.path.join(vcore.VERIF, "tools", "c2lean_fe25.py"), out], capture_output=True, text=True, env=e)
    r = vcore.tie_b_regen_multi(ctx, "fe25519 25.5-bit limb code (tools/c2lean_fe25.py)", gen, ["SodiumModel/Model/Fe25Gen.lean", "SodiumModel/Proofs/Fe25Gen.lean"],
                                "SodiumModel.Properties.C10Fe25", ["Sodium.C10Fe25.mul_spec", "Sodium.C10Fe25.sq_spec", "Sodium.C10Fe25.sq2_spec", "Sodium.C10Fe25.mul32_spec", "Sodium.C10Fe25.frombytes_spec", "Sodium.C10Fe25.x25519_fe25_eq_rfc7748"])
    ctx.log("Tie B: 25.5-bit field code re-transcribed from the source, %s" % ("identical / proofs hold" if not r else "CHANGED: %s" % [x[0] for x in r]))
    return r


def configs(tier):
    if tier == "quick":
        return [("native", m, "plain") for m in vcore.MASK_CHAIN] + [(v, "", "plain") for v in ("noasm", "noti", "portable")] + [("portable", vcore.ALL_OFF, "plain")]
    return [(v, m, "plain") for v in vcore.VARIANTS for m in vcore.MASK_CHAIN]


def unavailable_ok(ctx, cfg, line):
    return line.startswith("aead.aes256gcm")


def gen(ctx, tier, rng):
    """shared corpus: every k-th op of the other properties' generators (stateless families), block-boundary biased by construction"""
    lines = []
    step = 23 if tier == "quick" else 5
    for name in SOURCES:
        m = importlib.import_module("props." + name)
        sub = vcore.Ctx(name.upper(), "quick", ctx.seed)
        try:
            ls = m.gen(sub, "quick", random.Random(ctx.seed + 1))
            if hasattr(m, "post_model"):
                ls = m.post_model(sub, ls, lambda q: vcore.run_model(ctx, q))
        finally:
            sub.cleanup()
        ls = [l for l in ls if isinstance(l, str) and not l.startswith("enum.") and not l.startswith("rng.gen") and not l.startswith("alloc.") and not l.startswith("pad ")]
        # ops on which a recorded known finding (of another property) makes the implementation deviate from the model are left to that property's check
        kf = [re.compile(f["op_pattern"]) for f in vcore.known_findings() if f.get("status") == "known" and f.get("op_pattern")]
        ls = [l for l in ls if not any(k.search(l) for k in kf)]
        if name == "c08":    # the value-producing password-hashing ops are the backend-sensitive ones (Argon2 fill code, scrypt SSE / portable): keep them all
            pick = [l for l in ls if l.split(" ")[0] in ("pwhash.raw", "pwhash.str", "scrypt.raw", "scrypt.ll", "scrypt.str")] + [l for l in ls if l.split(" ")[0] not in ("pwhash.raw", "pwhash.str", "scrypt.raw", "scrypt.ll", "scrypt.str")][::step * 4]
        elif name == "c04":  # the crafted Poly1305 final-reduction inputs (accumulator around 2^130 - 5) are backend-sensitive: keep every short onetimeauth line
            pick = ls[::step] + [l for l in ls if l.startswith("onetimeauth ") and len(l) < 260]
        else:
            pick = ls[::step]
        lines += pick
        ctx.stats.setdefault("corpus_by_source", {})[name] = len(pick)
    return lines


# ---- (5) long-length cross-backend runs: implementation against implementation
LONG_REF = ("native", "")       # AES-NI backend (when the CPU has it; otherwise the comparison degenerates to software vs software and says so in the evidence)


def long_others():
    return [("native", vcore.ALL_OFF), ("portable", "")]      # software AES selected at run time / the only backend compiled in


def long_cases(tier, rng):
    """op lines whose long operand (zero-filled) is built inside the harness. The AEGIS length block carries the two 64-bit BIT lengths, whose upper 32-bit halves are non-zero
    only from 2^29 bytes on; the two operands get different upper halves (one long, one short), first the AD then the message. Quick tier: 2^20 only (keeps the ops, the three
    phases and the comparison exercised at no cost); thorough: 2^29 and 2^29 + 33 bytes of AD with a 77-byte message, and 2^29 + 17 bytes of message with a short AD."""
    big = tier != "quick"
    adls = [1 << 20] + ([1 << 29, (1 << 29) + 33] if big else [])
    mls = [(1 << 20) + 5] + ([(1 << 29) + 17] if big else [])
    rb = lambda n: bytes(rng.getrandbits(8) for _ in range(n))
    L = []
    for (v, kb, nb) in (("128l", 16, 16), ("256", 32, 32)):
        for adl in adls:
            L.append("aegis.longad %s %d %s %s %s" % (v, adl, vcore.hexs(rb(kb)), vcore.hexs(rb(nb)), vcore.hexs(rb(77))))
        for ml in mls:
            L.append("aegis.longmsg %s %d %s %s %s" % (v, ml, vcore.hexs(rb(kb)), vcore.hexs(rb(nb)), vcore.hexs(rb(rng.choice([0, 13, 45])))))
    return L


def long_followup(line, enc_out):
    """(op line, expected output) of the decryption of what `enc_out` (the answer to `line` of some backend) sealed; None if that answer is not a sealed result"""
    f = enc_out.split(" ")
    if len(f) != 3 or f[0] != "0" or len(f[2]) != 64:
        return None
    if line.startswith("aegis.longad "):
        return ("%s %s %s" % (line, f[1], f[2]), "0 " + line.split(" ")[5])
    return ("%s %s" % (line, f[2]), enc_out + " 0 1")


def long_run(ctx, cfg, line):
    out, cr = vcore.run_impl(ctx, vcore.build_hx(ctx, cfg[0]), [line], cfg[1], timeout=14400)
    return out[0] if out and not cr else "CRASH %s" % json.dumps(cr)


LONG_MAX_REPORT = 3


def long_report(ctx, line, cfg, got, want, what, ref=LONG_REF):
    ctx.stats["long_mismatch_list"] = ctx.stats.get("long_mismatch_list", []) + [[" ".join(line.split(" ")[:3]), cfg[0], cfg[1] or "none", what]]
    if len(ctx.stats["long_mismatch_list"]) > LONG_MAX_REPORT:      # the rest are the same disagreement seen from the other call forms / configurations: listed in the evidence only
        return
    vcore.report(ctx, "long:" + line.split(" ")[0], {"op": line, "variant": cfg[0], "mask": cfg[1], "flavour": "plain", "impl": got[:400], "expected": want[:400],
                                                    "reference_variant": ref[0], "reference_mask": ref[1], "what": what,
                                                    "explanation": "the same call gives different results depending on the AES backend in use (no mask: AES-NI when the CPU has it; all-off mask "
                                                                   "or portable build: software AES); the long operand is built by the harness (zero bytes), see harness/ops_c10.c"})


def long_cross(ctx, rng):
    from concurrent.futures import ThreadPoolExecutor
    t0 = time.time()
    cases = long_cases(ctx.tier, rng)
    others = long_others()
    for v in sorted(set(c[0] for c in [LONG_REF] + others)):
        vcore.build_hx(ctx, v)
    bad = 0
    with ThreadPoolExecutor(max_workers=14) as ex:
        ref_out = list(ex.map(lambda l: long_run(ctx, LONG_REF, l), cases))
        # phase 2: every other backend seals the same input, and opens what the reference backend sealed
        jobs = []
        for line, ro in zip(cases, ref_out):
            fu = long_followup(line, ro)
            if fu is None:
                long_report(ctx, line, LONG_REF, ro, "0 <ciphertext or digest> <32-byte tag>", "the reference configuration does not seal this input"); bad += 1
                continue
            for cfg in others:
                if line.startswith("aegis.longad "):
                    jobs.append((cfg, line, ro, "sealing"))
                jobs.append((cfg, fu[0], fu[1], "sealing, then opening what the reference configuration sealed" if line.startswith("aegis.longmsg ") else "opening what the reference configuration sealed"))
        outs = list(ex.map(lambda j: long_run(ctx, j[0], j[1]), jobs))
        back = {}
        for line, ro in zip(cases, ref_out):
            if long_followup(line, ro) is not None:
                back.setdefault(long_followup(line, ro), LONG_REF)
        for (cfg, line, want, what), got in zip(jobs, outs):
            if got != want:
                long_report(ctx, line, cfg, got, want, what); bad += 1
            # phase 3: the reference backend opens what this backend sealed (only informative when it differs from what the reference sealed itself)
            base = " ".join(line.split(" ")[:6])
            sealed = " ".join(got.split(" ")[:3])
            if what.startswith("sealing") and long_followup(base, sealed) is not None:
                back.setdefault(long_followup(base, sealed), cfg)
        items = list(back.items())
        outs3 = list(ex.map(lambda it: long_run(ctx, LONG_REF, it[0][0]), items))
        for ((line, want), src), got in zip(items, outs3):
            if got != want:
                long_report(ctx, line, LONG_REF, got, want, "opening what %s/%s sealed" % (src[0], src[1] or "none"), ref=src); bad += 1
    n = len(cases) + len(jobs) + len(items)
    ctx.evaluations += n
    fl, _ = vcore.run_impl(ctx, vcore.build_hx(ctx, "native"), ["rt.flags"], "")
    ctx.stats["long_length_cross_backend"] = {"cases": len(cases), "runs": n, "mismatches": bad, "max_operand_bytes": max(int(l.split(" ")[2]) for l in cases),
                                              "reference_has_aesni": bool(fl and "aesni=1" in fl[0]), "wall_s": round(time.time() - t0, 1), "sample": cases[0][:200]}
    ctx.log("long-length cross-backend: %d cases, %d runs (operands up to %d bytes), %d mismatches, %.1fs" % (len(cases), n, ctx.stats["long_length_cross_backend"]["max_operand_bytes"], bad, time.time() - t0))


def replay(ctx, r):
    line = r["op"]
    cfg = (r.get("variant", "native"), r.get("mask", ""), r.get("flavour", "plain"))
    if line.startswith("aegis.long"):
        # implementation against implementation: the recorded line on the recorded configuration must give what it gives on the reference configuration
        nf = len(line.split(" "))
        sealing = nf == 6
        ref = (r.get("reference_variant", LONG_REF[0]), r.get("reference_mask", LONG_REF[1]))
        got = long_run(ctx, cfg, line)
        if sealing:
            want = long_run(ctx, ref, line)
        else:       # an opening line: the expected answer is determined by the line itself (the message is on the line / all-zero)
            base = " ".join(line.split(" ")[:6])
            want = ("0 " + line.split(" ")[5]) if line.startswith("aegis.longad ") else None
            if want is None:
                want = " ".join(long_run(ctx, ref, base).split(" ")[:3]) + " 0 1"
        print("op       :", line[:300]); print("expected :", want[:300]); print("impl     :", got[:300], "(%s mask=%s)" % (cfg[0], cfg[1] or "none"))
        if got != want:
            print("VIOLATION property=%s replay=%s" % (ctx.prop, r.get("replay_cmd", "").split(" ")[-1]))
            return 1
        print("no disagreement on the current tree")
        return 0
    m = vcore.run_model(ctx, [line])[0]
    i, crashed = vcore.run_impl(ctx, vcore.build_hx(ctx, cfg[0], cfg[2]), [line], cfg[1], r.get("env") or None)
    print("op    :", line); print("model :", m); print("impl  :", i[0] if i else crashed)
    if not i or i[0] != m:
        print("VIOLATION property=%s replay=%s" % (ctx.prop, r.get("replay_cmd", "").split(" ")[-1]))
        return 1
    print("no disagreement on the current tree")
    return 0


def extra(ctx, rng):
    long_cross(ctx, rng)
    # ---- (2) Tie B: pickers
    gen_path = os.path.join(vcore.LEAN, "Generated", "Pickers.lean")
    tables = {}
    for variant in vcore.VARIANTS:
        try:
            pk, gcm, gr = c2lean_pickers.extract(variant)
        except Exception as e:
            vcore.report(ctx, "tieB:translator", {"variant": variant, "error": str(e), "theorem": "Sodium.Generated.pickers_sound",
                                                  "explanation": "the picker translator no longer understands the selection code: the obligation cannot be regenerated"}, no_input=True)
            continue
        tables[variant] = [(nm, [(c, impl, ret, req) for (c, impl, ret, req, _) in st]) for nm, st in pk]
        bad = c2lean_pickers.check(pk, gcm, gr)
        for (nm, fs, impl, miss) in bad[:3]:
            vcore.report(ctx, "tieB:picker", {"variant": variant, "picker": nm, "feature_set": fs, "selected": impl, "missing_isa": miss,
                                              "explanation": "with exactly this set of CPU features the picker selects code compiled for an instruction set the CPU does not have"})
        if variant == "native" or not bad:
            c2lean_pickers.emit_lean(pk, gcm, gr, gen_path)
            p = subprocess.run(["lake", "build", "+Generated.Obligations"], cwd=vcore.LEAN, capture_output=True, text=True)
            ctx.obligations.append({"theorem": "Sodium.Generated.pickers_sound/pickers_fallback/gcm_sound [%s]" % variant, "axioms": ["(decide +kernel over generated table)"]})
            if p.returncode == 0:
                ctx.discharged += 1
            elif not bad:
                vcore.report(ctx, "tieB:lean", {"variant": variant, "theorem": "Sodium.Generated.pickers_sound / pickers_fallback / gcm_sound", "log": (p.stdout + p.stderr)[-1500:],
                                                "explanation": "the kernel no longer accepts the selection-soundness obligations over the regenerated tables"}, no_input=True)
    ctx.stats["picker_tables"] = {v: [[nm, len(st)] for nm, st in t] for v, t in tables.items()}
    # restore the native table for later builds
    if "native" in tables:
        pk, gcm, gr = c2lean_pickers.extract("native")
        c2lean_pickers.emit_lean(pk, gcm, gr, gen_path)
    # ---- (1) decoder co-simulation (exhaustive 2^18)
    for variant, xg in (("native", "1"), ("noasm", "0")):
        exe = vcore.build_hx(ctx, variant)
        lines = ["enum.rt.decode %s %d %d" % (xg, lo, lo + 16384) for lo in range(0, 1 << 18, 16384)]
        mo = vcore.run_model(ctx, lines)
        io, crashed = vcore.run_impl(ctx, exe, lines)
        ctx.evaluations += 1 << 18
        ctx.stats["decoder_cases_%s" % variant] = 1 << 18
        for k, ln in enumerate(lines):
            if k >= len(io) or io[k] != mo[k]:
                # bisect to the first differing register combination
                lo, hi = int(ln.split()[2]), int(ln.split()[3])
                while hi - lo > 1:
                    mid = (lo + hi) // 2
                    l1 = "enum.rt.decode %s %d %d" % (xg, lo, mid)
                    if vcore.run_model(ctx, [l1])[0] != (vcore.run_impl(ctx, exe, [l1])[0] or [None])[0]:
                        hi = mid
                    else:
                        lo = mid
                vcore.report(ctx, "corr:rt.decode", {"variant": variant, "case_index": lo, "op": "enum.rt.decode %s %d %d" % (xg, lo, lo + 1),
                                                     "explanation": "the CPUID/XCR0 decoder reports a different feature set than the proved model for this register combination "
                                                                    "(bit k of the index selects the k-th relevant register bit, see Driver/C10.lean regsOf)"})
                break
    # ---- (3) reported flags ⊆ /proc/cpuinfo
    try:
        flags = set()
        for l in open("/proc/cpuinfo"):
            if l.startswith("flags"):
                flags = set(l.split(":", 1)[1].split())
                break
        exe = vcore.build_hx(ctx, "native")
        out, _ = vcore.run_impl(ctx, exe, ["rt.flags"], "")
        rep = dict(x.split("=") for x in out[0].split())
        names = {"sse2": "sse2", "sse3": "pni", "ssse3": "ssse3", "sse41": "sse4_1", "avx": "avx", "avx2": "avx2", "avx512f": "avx512f", "pclmul": "pclmulqdq", "aesni": "aes", "rdrand": "rdrand"}
        over = [k for k, v in rep.items() if k in names and v == "1" and names[k] not in flags]
        ctx.stats["reported_flags"] = rep
        if over:
            vcore.report(ctx, "flags", {"reported_but_absent": over, "explanation": "the library reports CPU features that /proc/cpuinfo does not list"})
        # availability of AES-256-GCM must equal pclmul & aesni & avx in every configuration that was run
        for c in ctx.configs_run:
            fl = dict(x.split("=") for x in (c.get("runtime_flags") or "").split())
            if fl and c["variant"] == "native" and (fl["gcm"] == "1") != (fl["pclmul"] == "1" and fl["aesni"] == "1" and fl["avx"] == "1"):
                vcore.report(ctx, "gcm_available", {"config": c, "explanation": "crypto_aead_aes256gcm_is_available disagrees with pclmul & aesni & avx"})
    except FileNotFoundError:
        pass
