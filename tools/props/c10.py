"""C10 — results do not depend on CPU features, selected backend or build configuration (DESIGN §3.10)."""
import importlib, json, os, random, subprocess
import vcore
import re
import c2lean_pickers

ID = "C10"
LEVEL = "proof"
_T = ["decode_sound", "decode_chain", "decode_no_cpuid", "gcm_available_iff", "allSound_spec", "fallback_spec"]
THEOREMS = vcore.theorems_in("SodiumModel/Properties/C10.lean", _T, "Sodium.C10")
IMPORTS = ["SodiumModel.Properties.C10", "SodiumModel.Properties.C10Fe25"]
# the build WITHOUT 128-bit integers: the radix-2^25.5 field code is modelled and proved to be GF(2^255-19); X25519 over it = RFC 7748 = X25519 over the 51-bit code
THEOREMS = THEOREMS + vcore.theorems_in("SodiumModel/Properties/C10Fe25.lean", ["mul_no_overflow", "mul_spec", "sq_spec", "sq2_spec", "mul32_spec", "frombytes_spec", "reduce_spec", "tobytes_spec",
                                        "tobytes_tight", "invert_spec", "pow22523_spec", "fe25_refines", "x25519_fe25_eq_rfc7748", "x25519_fe25_eq_fe51"], "Sodium.C10Fe25")
# Poly1305 of the same build (donna32, for 32- and 64-bit `unsigned long`) = spec = donna64; the byte-shift load / store fallbacks of common.h (builds without NATIVE_LITTLE_ENDIAN) = the memcpy forms
THEOREMS = THEOREMS + vcore.theorems_in("SodiumModel/Properties/C10Donna32.lean", ['wok64', 'wok32', 'init_spec32', 'init_inv32', 'blocks_spec32', 'blocks_no_overflow32', 'blocks_width_indep', 'finish_spec32', 'donna32_eq_abstract', 'donna32_mac_eq_specW', 'donna32_mac_eq_spec', 'donna32_mac_oneshot', 'donna32_ilp32_mac_eq_spec', 'donna32_lp64_eq_ilp32', 'donna32_eq_donna64', 'load64_le_shift_eq', 'store64_le_shift_eq', 'load32_le_shift_eq', 'store32_le_shift_eq', 'store64_be_shift_eq', 'store32_be_shift_eq', 'load64_be_shift_eq', 'load32_be_shift_eq', 'load32_be_short_differs', 'load64_le_shift_val', 'load32_le_shift_val', 'load64_be_shift_val', 'load32_be_shift_val', 'store64_le_shift_val', 'store32_le_shift_val', 'store64_be_shift_val', 'store32_be_shift_val', 'load64_le_store64_le', 'load32_be_store32_be', 'donna32_LOAD32_LE_shift', 'donna64_LOAD64_LE_shift', 'store32_shift', 'store64_shift', 'siphash_load64le_shift', 'chacha_load32le_shift', 'chacha_store32le_shift'], "Sodium.C10Donna32")
IMPORTS = IMPORTS + ["SodiumModel.Properties.C10Donna32"]
tie_b = lambda ctx: tie_b_fe25(ctx)
FINGERPRINTS = "C10"
RULE = ("(1) decoder co-simulation, exhaustive: all 2^18 combinations of the relevant CPUID/XCR0 bits through hook H2 against the Lean decoder, in the native build "
        "(XGETBV available) and the no-asm build (XCR0 unreadable); (2) Tie B: the picker decision lists and per-implementation target sets are regenerated from the source "
        "for every build variant and the kernel checks selection soundness over all 1024 feature sets; (3) reported flags with no mask are a subset of /proc/cpuinfo; "
        "(4) one shared deterministic corpus (sub-sampled op families of C01, C03, C04, C09, C14, C15, C16, C18) run on every configuration: 8 masks x native (+ 3 other "
        "variants in quick; 4 variants x 8 masks in thorough); every configuration's outputs must equal the model's; aes256gcm availability must equal pclmul & aesni & avx")
ASSUMPTIONS = ["assembly implementations (sandy2x: AVX; xmm6 Salsa20: x86-64 baseline) have their ISA requirement stated by hand in tools/c2lean_pickers.py",
               "architectural closure of feature sets (avx512f -> avx2 -> avx -> sse4.1 -> ssse3 -> sse3 -> sse2, aesni/pclmul -> sse2) is a hypothesis of selection soundness",
               "32-bit and big-endian targets are reached only as source paths (noti / portable variants) on this x86-64 host"]
SOURCES = ["c14", "c16", "c15", "c03", "c04", "c01", "c18", "c05", "c06", "c07", "c13", "c08"]



def tie_b_fe25(ctx):
    """the radix-2^25.5 field code (build without 128-bit integers): fe25519_mul / sq / sq2 / mul32 / frombytes are re-transcribed from the current source by
    tools/c2lean_fe25.py on every run; if the text differs the proofs (no-overflow, value mod p, X25519 over this field = RFC 7748) are re-checked against it"""
    import subprocess, sys, os
    e = dict(os.environ); e["VERIF_REPO"] = vcore.REPO
    gen = lambda out: subprocess.run([sys.executable, os.path.join(vcore.VERIF, "tools", "c2lean_fe25.py"), out], capture_output=True, text=True, env=e)
    r = vcore.tie_b_regen_multi(ctx, "fe25519 25.5-bit limb code (tools/c2lean_fe25.py)", gen, ["SodiumModel/Model/Fe25Gen.lean", "SodiumModel/Proofs/Fe25Gen.lean"],
                                "SodiumModel.Properties.C10Fe25", ["Sodium.C10Fe25.mul_spec", "Sodium.C10Fe25.sq_spec", "Sodium.C10Fe25.sq2_spec", "Sodium.C10Fe25.mul32_spec", "Sodium.C10Fe25.frombytes_spec", "Sodium.C10Fe25.x25519_fe25_eq_rfc7748"])
    ctx.log("Tie B: 25.5-bit field code re-transcribed from the source, %s" % ("identical / proofs hold" if not r else "CHANGED: %s" % [x[0] for x in r]))
    return r


def configs(tier):
    if tier == "quick":
        return [("native", m, "plain") for m in vcore.MASK_CHAIN] + [(v, "", "plain") for v in ("noasm", "noti", "portable")] + [("portable", vcore.ALL_OFF, "plain")]
    return [(v, m, "plain") for v in vcore.VARIANTS for m in vcore.MASK_CHAIN]


def unavailable_ok(ctx, cfg, line):
    return line.startswith("aead.aes256gcm")


def gen(ctx, tier, rng):
    """shared corpus: every k-th op of the other properties' generators (stateless families), block-boundary biased by construction"""
    lines = []
    step = 23 if tier == "quick" else 5
    for name in SOURCES:
        m = importlib.import_module("props." + name)
        sub = vcore.Ctx(name.upper(), "quick", ctx.seed)
        try:
            ls = m.gen(sub, "quick", random.Random(ctx.seed + 1))
            if hasattr(m, "post_model"):
                ls = m.post_model(sub, ls, lambda q: vcore.run_model(ctx, q))
        finally:
            sub.cleanup()
        ls = [l for l in ls if isinstance(l, str) and not l.startswith("enum.") and not l.startswith("rng.gen") and not l.startswith("alloc.") and not l.startswith("pad ")]
        # ops on which a recorded known finding (of another property) makes the implementation deviate from the model are left to that property's check
        kf = [re.compile(f["op_pattern"]) for f in vcore.known_findings() if f.get("status") == "known" and f.get("op_pattern")]
        ls = [l for l in ls if not any(k.search(l) for k in kf)]
        if name == "c08":    # the value-producing password-hashing ops are the backend-sensitive ones (Argon2 fill code, scrypt SSE / portable): keep them all
            pick = [l for l in ls if l.split(" ")[0] in ("pwhash.raw", "pwhash.str", "scrypt.raw", "scrypt.ll", "scrypt.str")] + [l for l in ls if l.split(" ")[0] not in ("pwhash.raw", "pwhash.str", "scrypt.raw", "scrypt.ll", "scrypt.str")][::step * 4]
        elif name == "c04":  # the crafted Poly1305 final-reduction inputs (accumulator around 2^130 - 5) are backend-sensitive: keep every short onetimeauth line
            pick = ls[::step] + [l for l in ls if l.startswith("onetimeauth ") and len(l) < 260]
        else:
            pick = ls[::step]
        lines += pick
        ctx.stats.setdefault("corpus_by_source", {})[name] = len(pick)
    return lines


def extra(ctx, rng):
    # ---- (2) Tie B: pickers
    gen_path = os.path.join(vcore.LEAN, "Generated", "Pickers.lean")
    tables = {}
    for variant in vcore.VARIANTS:
        try:
            pk, gcm, gr = c2lean_pickers.extract(variant)
        except Exception as e:
            vcore.report(ctx, "tieB:translator", {"variant": variant, "error": str(e), "theorem": "Sodium.Generated.pickers_sound",
                                                  "explanation": "the picker translator no longer understands the selection code: the obligation cannot be regenerated"}, no_input=True)
            continue
        tables[variant] = [(nm, [(c, impl, ret, req) for (c, impl, ret, req, _) in st]) for nm, st in pk]
        bad = c2lean_pickers.check(pk, gcm, gr)
        for (nm, fs, impl, miss) in bad[:3]:
            vcore.report(ctx, "tieB:picker", {"variant": variant, "picker": nm, "feature_set": fs, "selected": impl, "missing_isa": miss,
                                              "explanation": "with exactly this set of CPU features the picker selects code compiled for an instruction set the CPU does not have"})
        if variant == "native" or not bad:
            c2lean_pickers.emit_lean(pk, gcm, gr, gen_path)
            p = subprocess.run(["lake", "build", "+Generated.Obligations"], cwd=vcore.LEAN, capture_output=True, text=True)
            ctx.obligations.append({"theorem": "Sodium.Generated.pickers_sound/pickers_fallback/gcm_sound [%s]" % variant, "axioms": ["(decide +kernel over generated table)"]})
            if p.returncode == 0:
                ctx.discharged += 1
            elif not bad:
                vcore.report(ctx, "tieB:lean", {"variant": variant, "theorem": "Sodium.Generated.pickers_sound / pickers_fallback / gcm_sound", "log": (p.stdout + p.stderr)[-1500:],
                                                "explanation": "the kernel no longer accepts the selection-soundness obligations over the regenerated tables"}, no_input=True)
    ctx.stats["picker_tables"] = {v: [[nm, len(st)] for nm, st in t] for v, t in tables.items()}
    # restore the native table for later builds
    if "native" in tables:
        pk, gcm, gr = c2lean_pickers.extract("native")
        c2lean_pickers.emit_lean(pk, gcm, gr, gen_path)
    # ---- (1) decoder co-simulation (exhaustive 2^18)
    for variant, xg in (("native", "1"), ("noasm", "0")):
        exe = vcore.build_hx(ctx, variant)
        lines = ["enum.rt.decode %s %d %d" % (xg, lo, lo + 16384) for lo in range(0, 1 << 18, 16384)]
        mo = vcore.run_model(ctx, lines)
        io, crashed = vcore.run_impl(ctx, exe, lines)
        ctx.evaluations += 1 << 18
        ctx.stats["decoder_cases_%s" % variant] = 1 << 18
        for k, ln in enumerate(lines):
            if k >= len(io) or io[k] != mo[k]:
                # bisect to the first differing register combination
                lo, hi = int(ln.split()[2]), int(ln.split()[3])
                while hi - lo > 1:
                    mid = (lo + hi) // 2
                    l1 = "enum.rt.decode %s %d %d" % (xg, lo, mid)
                    if vcore.run_model(ctx, [l1])[0] != (vcore.run_impl(ctx, exe, [l1])[0] or [None])[0]:
                        hi = mid
                    else:
                        lo = mid
                vcore.report(ctx, "corr:rt.decode", {"variant": variant, "case_index": lo, "op": "enum.rt.decode %s %d %d" % (xg, lo, lo + 1),
                                                     "explanation": "the CPUID/XCR0 decoder reports a different feature set than the proved model for this register combination "
                                                                    "(bit k of the index selects the k-th relevant register bit, see Driver/C10.lean regsOf)"})
                break
    # ---- (3) reported flags ⊆ /proc/cpuinfo
    try:
        flags = set()
        for l in open("/proc/cpuinfo"):
            if l.startswith("flags"):
                flags = set(l.split(":", 1)[1].split())
                break
        exe = vcore.build_hx(ctx, "native")
        out, _ = vcore.run_impl(ctx, exe, ["rt.flags"], "")
        rep = dict(x.split("=") for x in out[0].split())
        names = {"sse2": "sse2", "sse3": "pni", "ssse3": "ssse3", "sse41": "sse4_1", "avx": "avx", "avx2": "avx2", "avx512f": "avx512f", "pclmul": "pclmulqdq", "aesni": "aes", "rdrand": "rdrand"}
        over = [k for k, v in rep.items() if k in names and v == "1" and names[k] not in flags]
        ctx.stats["reported_flags"] = rep
        if over:
            vcore.report(ctx, "flags", {"reported_but_absent": over, "explanation": "the library reports CPU features that /proc/cpuinfo does not list"})
        # availability of AES-256-GCM must equal pclmul & aesni & avx in every configuration that was run
        for c in ctx.configs_run:
            fl = dict(x.split("=") for x in (c.get("runtime_flags") or "").split())
            if fl and c["variant"] == "native" and (fl["gcm"] == "1") != (fl["pclmul"] == "1" and fl["aesni"] == "1" and fl["avx"] == "1"):
                vcore.report(ctx, "gcm_available", {"config": c, "explanation": "crypto_aead_aes256gcm_is_available disagrees with pclmul & aesni & avx"})
    except FileNotFoundError:
        pass
