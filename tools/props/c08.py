"""C08 — password hashing: RFC 9106 / RFC 7914 values, strict self-describing strings, limits (DESIGN §3.8)."""
import base64, os, random, re
from concurrent.futures import ThreadPoolExecutor
import vcore

ID = "C08"
LEVEL = "proof"
_T = ["decode_decimal_spec", "decimal_u32_spec", "decimal_u32_exact", "u32_to_string_minimal", "decimal_u32_accepts_minimal", "encode_format", "encode_decode_roundtrip",
      "str_decode_roundtrip", "needs_rehash_spec", "needs_rehash_wellformed", "needs_rehash_ignores_lanes", "needs_rehash_memlimit_granularity", "limits_spec", "limits_spec_specific",
      "validate_inputs_spec", "memory_rounding", "verify_dispatch", "prefixes_disjoint", "decodable_has_prefix", "str_verify_roundtrip_partial", "verify_spec", "verify_wellformed",
      "verify_malformed", "decode_result_consistent", "str_format", "str_limits", "pickparams_spec", "scrypt_limits_spec"]
THEOREMS = vcore.theorems_in("SodiumModel/Properties/C08.lean", _T, "Sodium.C08")
IMPORTS = ["SodiumModel.Properties.C08"] if THEOREMS else ["SodiumModel.Spec.Argon2"]
# the reference Argon2 core (argon2-core.c, argon2-fill-block-ref.c, blamka-round-ref.h, blake2b-long.c, argon2.c) in the C's structure = RFC 9106 for every in-range input and any number of lanes
THEOREMS = THEOREMS + vcore.theorems_in("SodiumModel/Properties/C08Core.lean", ['fBlaMka_spec', 'fBlaMka_nat', 'G_spec', 'BLAKE2_ROUND_NOMSG_spec', 'round_at_spec', 'fill_block_indices', 'fill_block_spec', 'fill_block_with_xor_spec', 'xor_block_spec', 'index_alpha_spec', 'index_alpha_bounds', 'generate_addresses_spec', 'addressing_schedule', 'fill_segment_spec', 'fill_segment_in_bounds', 'fill_memory_blocks_spec', 'rel_getBlock', 'blake2b_long_spec', 'load_store_block_spec', 'initial_hash_spec', 'fill_first_blocks_spec', 'finalize_spec', 'blake2b_returns_outlen', 'argon2_ctx_core_spec', 'argon2_hash_ref_model_spec', 'argon2_hash_spec', 'crypto_pwhash_spec', 'crypto_pwhash_str_spec', 'crypto_pwhash_str_verify_spec', 'crypto_pwhash_is_rfc9106', 'driver_prims_eq'], "Sodium.C08Core")
# the reference scrypt code (nosse smix / blockmix / salsa20_8 / integerify, PBKDF2-SHA-256): components = RFC 7914 / RFC 8018 (the le32 / p-loop glue of escrypt_kdf_nosse is tied by the correspondence)
THEOREMS = THEOREMS + vcore.theorems_in("SodiumModel/Properties/C08Scrypt.lean", ['salsa20_8_eq_spec', 'blockmix_salsa8_eq_spec', 'blockmix_salsa8_scratch', 'integerify_eq_spec', 'smix_loops_eq_spec', 'pbkdf2_eq_spec', 'pbkdf2_sha256_eq_spec', 'kdf_nosse_rejects', 'kdf_guards', 'power_of_two_test'], "Sodium.C08Scrypt")
IMPORTS = IMPORTS + ["SodiumModel.Properties.C08Core", "SodiumModel.Properties.C08Scrypt", "SodiumModel.Properties.C08Simd"]
# the AVX2 / SSSE3 / AVX-512F block-filling code = the reference code = RFC 9106, up to crypto_pwhash, for every input
THEOREMS = THEOREMS + vcore.theorems_in("SodiumModel/Properties/C08Simd.lean", ['words256_get', 'words128_get', 'words512_get', 'words_regs', 'regs_words', 'memcpy_state_eq', 'avx2_fBlaMka', 'ssse3_fBlaMka', 'avx512f_muladd', 'avx2_rotations', 'ssse3_rotations', 'avx512f_rotations', 'avx2_G', 'avx2_DIAGONALIZE_1', 'avx2_DIAGONALIZE_2', 'avx2_BLAKE2_ROUND_1', 'avx2_BLAKE2_ROUND_2', 'ssse3_BLAKE2_ROUND', 'avx512f_BLAKE2_ROUND_words', 'reference_loops', 'avx2_loop_steps', 'ssse3_loop_steps', 'avx512f_loop_steps', 'blake2_rounds_eq_ref', 'avx2_fill_block', 'avx2_fill_block_with_xor', 'ssse3_fill_block', 'ssse3_fill_block_with_xor', 'avx512f_fill_block', 'avx512f_fill_block_with_xor', 'avx2_fill_block_is_rfc9106', 'generate_addresses_eq_ref', 'fill_segment_avx2_eq_ref', 'fill_segment_ssse3_eq_ref', 'fill_segment_avx512f_eq_ref', 'fill_segment_avx2_spec', 'segOK_all', 'argon2_ctx_core_simd_spec', 'argon2_hash_model_simd_spec', 'argon2_hash_simd_eq_ref', 'crypto_pwhash_simd_eq_ref', 'crypto_pwhash_str_simd_eq_ref', 'crypto_pwhash_str_verify_simd_eq_ref', 'crypto_pwhash_simd_is_rfc9106', 'crypto_pwhash_avx2_is_rfc9106', 'crypto_pwhash_ssse3_is_rfc9106', 'crypto_pwhash_avx512f_is_rfc9106', 'driver_primsAvx2_eq', 'driver_prims_agree'], "Sodium.C08Simd")


IMPORTS = IMPORTS + ["SodiumModel.Properties.C08ScryptSse"]
THEOREMS = THEOREMS + vcore.theorems_in("SodiumModel/Properties/C08ScryptSse.lean", ['shuf_getD', 'rowS_iff_shuf', 'sse_two_rounds_eq_spec', 'sse_salsa20_8_eq_spec', 'sse_salsa20_8_eq_ref', 'sse_layout', 'sse_layout_inv', 'sse_load_block', 'SALSA20_8_XOR_spec', 'sse_blockmix_salsa8_eq_spec', 'sse_blockmix_salsa8_eq_ref', 'sse_blockmix_salsa8_xor_eq_spec', 'sse_integerify_eq_ref', 'sse_integerify_eq_spec', 'sse_xor_return_is_integerify', 'sse_smix_loops_eq_spec', 'sse_smix_parts', 'sse_smix_loops_eq_ref', 'sse_smix_load_eq_spec', 'sse_smix_steps_1_to_9', 'stored_spec', 'wordsLE_eq_spec', 'sse_smix_eq_spec', 'ref_smix_eq_spec', 'sse_smix_eq_ref', 'hmac_laws', 'escrypt_kdf_sse_eq_spec', 'escrypt_kdf_nosse_eq_spec', 'escrypt_kdf_sse_eq_nosse', 'escrypt_kdf_sse_sha256', 'escrypt_kdf_nosse_sha256', 'pow2_and', 'kdfSpec_pick', 'crypto_pwhash_scrypt_sse_eq_spec', 'crypto_pwhash_scrypt_ref_eq_spec'], "Sodium.C08ScryptSse")


def tie_b(ctx):
    vcore.simd_check_script(ctx, "argon2")
    vcore.simd_check_script(ctx, "scryptsse")
    return []

FINGERPRINTS = "C08"     # Tie B: pinned source text of the transcribed Argon2 / scrypt reference code (tools/fingerprint.py)
RULE = ("raw hashing for both Argon2 types through the generic and the specific entry points: output lengths 16..1000, password lengths 0..300, every memory limit 8192..16384 step 512 (block rounding), "
        "ops 1..4, all limit boundaries and their precedence (EINVAL / EFBIG); hash strings produced under a scripted salt source; verify and needs_rehash on produced strings and on every mutation class: "
        "each character replaced, truncation at every position, junk appended, parameters rewritten (m / t / p / v, leading zeros, signs, overflow to 2^32 and 2^64, missing / duplicated / reordered fields), "
        "Base64 fields with padding, wrong alphabet, whitespace, NUL, bytes >= 0x80, salt / tag length limits, the 127 / 128-byte needs_rehash edge, wrong type prefix through each verifier; scrypt: "
        "raw / ll (RFC 7914 vectors, N r p combinations), $7$ strings produced and mutated the same way; each on the AVX-512 / AVX2 / SSSE3 / reference Argon2 fill code and the SSE2 / portable scrypt code")
ASSUMPTIONS = ["the Argon2 and scrypt cores are parameters of the string-layer model (`Prims`); the driver instantiates them with the C-structured models of the REFERENCE cores, proved equal to RFC 9106 (C08Core, end to end) "
               "and, component-wise, to RFC 7914 / RFC 8018 (C08Scrypt); the AVX-512F / AVX2 / SSSE3 Argon2 fill code is modelled and proved equal to the reference code (C08Simd) over an intrinsic semantics validated against the CPU each run; the SSE2 scrypt code is compared with the reference model through the correspondence",
               "allocation failure paths (memlimit up to 4 TiB, huge scrypt r*N) are under C20, not modelled here; outlen > 2^32-1 and passwords > 4 GiB are proved in limits_spec but cannot be driven through the harness",
               "scrypt $7$ strings: round trip shown on instances, not proved in general; scrypt clamps out-of-range opslimit / memlimit instead of rejecting them (scrypt_limits_spec states what the code does)"]


def configs(tier):
    if tier == "quick":
        return [("native", "", "plain"), ("native", "avx512f", "plain"), ("native", "avx512f,avx2", "plain"), ("native", vcore.ALL_OFF, "plain")]
    return [("native", m, "plain") for m in vcore.MASK_CHAIN] + [("portable", "", "plain"), ("noti", "", "plain"), ("native", "", "asan")]


def _corpus(ctx, rng):
    """the corpus generator written with the model (tools/corpus/gen_c08_corpus.py), with the base strings obtained from the MODEL driver"""
    src = open(os.path.join(vcore.VERIF, "tools", "corpus", "gen_c08_corpus.py")).read().split("\n")
    start = next(i for i, l in enumerate(src) if l.startswith("def h(b):"))
    end = next(i for i, l in enumerate(src) if l.startswith("open('/var/tmp"))
    body = "\n".join(src[start:end])
    ns = {"random": random, "re": re, "base64": base64, "rnd": rng, "L": [], "hx": lambda lines: vcore.run_model(ctx, lines)}
    exec(compile(body, "gen_c08_corpus.py", "exec"), ns)
    return ns["L"]


def gen(ctx, tier, rng):
    L = _corpus(ctx, random.Random(808 + ctx.seed))
    seen, out = set(), []
    for l in L:
        if l not in seen:
            seen.add(l); out.append(l)
    # documented scrypt cost range: below / at / above each limit (the in-range point costs 16 MiB of real scrypt, not run in the Lean model)
    out += ["scrypt.range %d %d" % (o, m) for (o, m) in ((0, 0), (0, 8192), (1, 16777216), (32767, 16777216), (32768, 16777215), (32768, 16777216),
                                                         (32768, 1048576), (40000, 20000000))]      # (large opslimit values make p huge: hours of real scrypt — not probed)
    if tier == "quick":
        # all raw / str / limit lines, and a seed-dependent 1-in-5 sample of the (large) verify / needs_rehash mutation classes
        keep = [l for l in out if not l.split(" ")[0] in ("pwhash.verify", "pwhash.needs_rehash", "scrypt.verify", "scrypt.needs_rehash")]
        rest = [l for l in out if l.split(" ")[0] in ("pwhash.verify", "pwhash.needs_rehash", "scrypt.verify", "scrypt.needs_rehash")]
        rng.shuffle(rest)
        out = keep + rest[:len(rest) // 5]
    return out


def MODEL_RUN(ctx, lines, nproc=14):
    """the model evaluates Argon2 / scrypt in Lean: split over processes"""
    chunks = [lines[i::nproc] for i in range(nproc)]
    with ThreadPoolExecutor(max_workers=nproc) as ex:
        outs = list(ex.map(lambda c: vcore.run_model(ctx, c) if c else [], chunks))
    res = [None] * len(lines)
    for i, o in enumerate(outs):
        for j, v in enumerate(o):
            res[i + j * nproc] = v
    return res
