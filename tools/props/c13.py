"""C13 — in-place and overlapping buffers give the same result as disjoint ones (DESIGN §3.13)."""
import vcore, edpy
from vcore import hexs

ID = "C13"
LEVEL = "proof"
_T = ["distance_test_exact", "distance_test_overlap", "distance_test_false", "detached_overlap", "easy_overlap", "open_detached_overlap", "open_easy_overlap",
      "sign_overlap", "sign_open_overlap", "xor_inplace", "xor_chunks_forward", "xor_chunks_inplace", "aead_encrypt_inplace", "aead_decrypt_inplace"]
THEOREMS = vcore.theorems_in("SodiumModel/Properties/C13.lean", _T, "Sodium.C13")
IMPORTS = ["SodiumModel.Properties.C13"] if THEOREMS else ["SodiumModel.Model.Aead"]
IMPORTS = IMPORTS + ["SodiumModel.Properties.C13Aead"]
IMPORTS = IMPORTS + ["SodiumModel.Properties.C13Aead2", "SodiumModel.Properties.C13Aead3"]
THEOREMS = THEOREMS + vcore.theorems_in("SodiumModel/Properties/C13Aead3.lean", ["specPrims_ok", "gctr_is_xor_keystream", "gcmEncV_is_gcm", "gcm_encrypt_detached_is_sp800_38d", "gcmTagV_is_gcm_tag", "gcm_plaintext_is_gctr"], "Sodium.C13Aead3")
THEOREMS = THEOREMS + vcore.theorems_in("SodiumModel/Properties/C13Aead2.lean", ['gcm_enc_schedule_ok', 'gcm_dec_schedule_ok', 'gcm_encrypt_mem_all', 'gcm_decrypt_mem_all', 'gcm_encrypt_inplace', 'gcm_decrypt_inplace', 'gcm_encrypt_inplace_eq_disjoint', 'gcm_decrypt_inplace_eq_disjoint', 'gcm_loops_exit', 'gcm_encrypt_ghash_input', 'gcm_decrypt_ghash_input', 'gcm_encrypt_detached_mem', 'gcm_encrypt_limits_path', 'gcm_decrypt_detached_mem', 'toyG_lens', 'gcm_tag_inside_output_differs', 'gcm_mac_over_message_tail_differs'], "Sodium.C13Aead2")
THEOREMS = THEOREMS + vcore.theorems_in("SodiumModel/Properties/C13Aead.lean", ['chacha_encrypt_mem', 'chacha_encrypt_inplace_eq_disjoint', 'chacha_decrypt_mem', 'chacha_decrypt_inplace_eq_disjoint', 'chacha_decrypt_failure_zeroed', 'chacha_decrypt_verify_only', 'xchacha_encrypt_mem', 'xchacha_decrypt_mem', 'blocks64_sum', 'chacha_partial_overlap_differs', 'real_order_accepts_inplace', 'seeded_C13_6_rejects_inplace', 'seeded_C13_6_accepts_disjoint', 'aegis_encrypt_mem', 'aegis_decrypt_mem', 'aegis_decrypt_failure_zeroed', 'aegis_decrypt_verify_only', 'aegis_encrypt_inplace_eq_disjoint', 'aegis_decrypt_inplace_eq_disjoint', 'aegis128l_blockLens', 'aegis256_blockLens', 'toyV_blockLens', 'aegis_partial_overlap_differs', 'aegis_tag_inside_output_differs', 'gcm_encrypt_mem', 'gcm_decrypt_mem', 'gcm_schedules_ok_a', 'gcm_schedules_ok_b', 'gcm_schedules_ok_c', 'gcm_schedules_ok_below_1024', 'gcm_encrypt_inplace_below_1024', 'gcm_decrypt_inplace_below_1024', 'gcm_store_before_hash_differs', 'gcm_partial_overlap_differs'], "Sodium.C13Aead")
RULE = ("input and output laid out in one arena at every relative offset -80..+80 (dense) for secretbox easy / open_easy / detached / open_detached (both cipher variants), "
        "box easy / open_easy, crypto_sign and crypto_sign_open, message lengths 0..1200 (dense to 130 at a few offsets, all offsets at a few lengths); exact aliasing for every "
        "stream XOR and AEAD encrypt/decrypt form; the expected answer is the disjoint-buffer answer of the value-level model; every backend via CPU masks")
ASSUMPTIONS = ["the value-level models do not mention addresses; the flat-memory overlap theorems (Properties/C13.lean) relate the pointer-distance test and memmove to them"]
AEADS = [("chachapoly", 32, 8, 16), ("chachapoly_ietf", 32, 12, 16), ("xchachapoly", 32, 24, 16), ("aes256gcm", 32, 12, 16), ("aegis128l", 16, 16, 32), ("aegis256", 32, 32, 32)]


def configs(tier):
    if tier == "quick":
        return [("native", "", "plain"), ("native", "avx512f,avx2", "plain"), ("native", vcore.ALL_OFF, "plain"),
                ("native", "", "plain", {"HX_ALIGN": "5"})]     # every buffer 5 bytes past a malloc boundary (misaligned for 2/4/8/16/32)
    return [(v, m, "plain") for v in vcore.VARIANTS for m in vcore.MASK_CHAIN]


def unavailable_ok(ctx, cfg, line):
    return line.startswith("aead.aes256gcm")


def rb(rng, n):
    return bytes(rng.getrandbits(8) for _ in range(n))


def gen(ctx, tier, rng):
    T = []
    full = tier == "thorough"
    lens_all = [0, 1, 15, 16, 17, 31, 32, 33, 47, 48, 63, 64, 65, 79, 80, 81, 96, 127, 128, 129, 200, 255, 256, 257, 511, 512, 513, 1023, 1200]
    deltas_all = list(range(-80, 81))
    pairs = set()
    for n in (lens_all if not full else lens_all + list(range(0, 131))):
        for d in (deltas_all if (full or n in (0, 1, 16, 31, 32, 33, 64, 65, 100, 256)) else [-80, -65, -64, -33, -32, -17, -16, -15, -1, 0, 1, 15, 16, 17, 31, 32, 33, 63, 64, 65, 80]):
            pairs.add((n, d))
    # long buffers at the offsets around one and several cipher blocks (counter-byte carries, many SIMD batches)
    for n in (4096, 4097, 8200):
        for d in (-80, -65, -64, -63, -17, -16, -1, 0, 1, 16, 17, 63, 64, 65, 80):
            pairs.add((n, d))
    seed = rb(rng, 32)
    pk = edpy.pubkey(seed)
    sk = seed + pk
    for (n, d) in sorted(pairs):
        m = rb(rng, n)
        for v in ("xsalsa", "xchacha"):
            nn, k = rb(rng, 24), rb(rng, 32)
            T.append("ovl.secretbox.%s.easy %d %s %s %s" % (v, d, hexs(m), hexs(nn), hexs(k)))
            T.append("ovl.secretbox.%s.detached %d %s %s %s" % (v, d, hexs(m), hexs(nn), hexs(k)))
            T.append(("SBOPEN", v, d, m, nn, k))
        if full or (n in (0, 1, 31, 32, 33, 64, 65, 100) and d % 4 == 0) or (d in (-64, -63, -1, 0, 1, 63, 64, 65) and n % 2 == 1):
            T.append("ovl.sign %d %s %s" % (d, hexs(m), hexs(sk)))
            T.append("ovl.sign_open %d %s %s" % (d, hexs(edpy.sign(seed, m) + m), hexs(pk)))
            bad = bytearray(edpy.sign(seed, m) + m)
            bad[rng.randrange(len(bad))] ^= 2
            T.append("ovl.sign_open %d %s %s" % (d, hexs(bytes(bad)), hexs(pk)))
        if n % 5 == 0:
            T.append(("BOX", rng.choice(["xsalsa", "xchacha"]), d, m, rb(rng, 24), rb(rng, 32), rb(rng, 32)))
    # exact aliasing: stream XOR and AEAD forms
    for n in list(range(0, 300)) + [511, 512, 513, 1023, 1024, 1025, 2047, 2048, 2049, 4095, 4096, 4097, 4200, 8193, 16400]:
        m = rb(rng, n)
        for (c, nl) in (("chacha20", 8), ("chacha20_ietf", 12), ("xchacha20", 24), ("salsa20", 8), ("xsalsa20", 24), ("salsa2012", 8)):
            if n > 300 or n % 2 == 0 or full:
                T.append("ovl.inplace %s %s %s %d %s" % (c, hexs(m), hexs(rb(rng, nl)), rng.choice([0, 1, 7, (1 << 32) - 2]) if c != "chacha20_ietf" else rng.choice([0, 1, 7]), hexs(rb(rng, 32))))
        for (name, kb, nb, ab) in AEADS:
            if n > 300 or n % 3 == 0 or full:
                T.append(("AEAD", name, m, rb(rng, rng.choice([0, 13, 32])), rb(rng, nb), rb(rng, kb)))
    # long messages in place ("for every length"): past 16 / 32 / 64 / 128 KiB, where an implementation may switch to chunked processing
    for n in [32767, 32768, 32769, 49153, 65535, 65536, 65537] + ([131077, 262157] if full else [131077]):
        m = rb(rng, n)
        for (c, nl) in (("chacha20", 8), ("chacha20_ietf", 12), ("xchacha20", 24), ("salsa20", 8), ("xsalsa20", 24)):
            T.append("ovl.inplace %s %s %s %d %s" % (c, hexs(m), hexs(rb(rng, nl)), rng.choice([0, 1, 7]), hexs(rb(rng, 32))))
        for (name, kb, nb, ab) in AEADS:
            if n <= 65537 or name in ("chachapoly", "chachapoly_ietf", "xchachapoly"):
                T.append(("AEAD", name, m, rb(rng, rng.choice([0, 13])), rb(rng, nb), rb(rng, kb)))
    return T


def MODEL_RUN(ctx, lines):
    return vcore.run_model_parallel(ctx, lines)     # stateless ops; the long in-place messages dominate the model's run time


def post_model(ctx, T, run_model):
    base = [l for l in T if isinstance(l, str)]
    pend = [l for l in T if not isinstance(l, str)]
    q = []
    for t in pend:
        if t[0] == "SBOPEN":
            q.append("secretbox.%s.enc %s %s %s" % (t[1], hexs(t[3]), hexs(t[4]), hexs(t[5])))
        elif t[0] == "BOX":
            q.append("x25519.base %s" % hexs(t[5]))
            q.append("x25519.base %s" % hexs(t[6]))
        else:
            q.append("aead.%s.enc %s %s %s %s" % (t[1], hexs(t[2]), hexs(t[3]), hexs(t[4]), hexs(t[5])))
    outs = run_model(q)
    L = []
    k = 0
    box2 = []
    for t in pend:
        if t[0] == "SBOPEN":
            c, mac = outs[k].split(" ")
            k += 1
            cb = b"" if c == "-" else bytes.fromhex(c)
            _, v, d, m, nn, key = t
            L.append("ovl.secretbox.%s.open %d %s %s %s" % (v, d, hexs(bytes.fromhex(mac) + cb), hexs(nn), hexs(key)))
            L.append("ovl.secretbox.%s.opendet %d %s %s %s %s" % (v, d, hexs(cb), hexs(nn), hexs(key), mac))
            bad = bytearray(bytes.fromhex(mac) + cb)
            bad[len(bad) // 2] ^= 0x10
            L.append("ovl.secretbox.%s.open %d %s %s %s" % (v, d, hexs(bytes(bad)), hexs(nn), hexs(key)))
        elif t[0] == "BOX":
            pka, pkb = outs[k], outs[k + 1]
            k += 2
            _, v, d, m, nn, ska, skb = t
            L.append("ovl.box.%s.easy %d %s %s %s %s" % (v, d, hexs(m), hexs(nn), pkb, hexs(ska)))
            box2.append((v, d, m, nn, pka, pkb, ska, skb))
        else:
            c, mac = outs[k].split(" ")
            k += 1
            _, name, m, ad, n, key = t
            L.append("aead.%s.encip %s %s %s %s" % (name, hexs(m), hexs(ad), hexs(n), hexs(key)))
            L.append("aead.%s.decip %s %s %s %s %s" % (name, c, mac, hexs(ad), hexs(n), hexs(key)))
            badmac = bytearray(bytes.fromhex(mac))
            badmac[0] ^= 1
            L.append("aead.%s.decip %s %s %s %s %s" % (name, c, hexs(bytes(badmac)), hexs(ad), hexs(n), hexs(key)))
    if box2:
        o2 = run_model(["box.easy %s %s %s %s %s" % (v, hexs(m), hexs(nn), pkb, hexs(ska)) for (v, d, m, nn, pka, pkb, ska, skb) in box2])
        for (v, d, m, nn, pka, pkb, ska, skb), o in zip(box2, o2):
            L.append("ovl.box.%s.open %d %s %s %s %s" % (v, d, o.split(" ")[1], hexs(nn), pka, hexs(skb)))
    return base + L
