"""C12 — no out-of-bounds access or undefined behaviour for any in-contract call; size arguments beyond the
documented limits are refused."""
import json, os, re, time
from concurrent.futures import ThreadPoolExecutor
import vcore

ID = "C12"
LEVEL = "proof"
_T = ["md_buf_in_bounds", "md_write_index", "sha256_buf_in_bounds", "sha512_buf_in_bounds", "b2_buf_in_bounds", "blake2b_buf_in_bounds",
      "poly_buf_in_bounds", "poly1305_buf_in_bounds", "hmac_buf_in_bounds",
      "c12_pad_in_bounds", "c12_unpad_reads_final_block", "c12_hex_capacity", "c12_b64_capacity", "c12_bin2hex_exact_size", "c12_b64_encode_exact_size",
      "c12_ietf_guard", "c12_ietf_no_wrap", "c12_stream_output_length", "c12_generichash_range", "c12_kdf_range", "c12_hkdf_range",
      "limits_keys_nodup", "refusal_table_sound", "observable_total",
      "secretbox_easy_refuses", "secretbox_easy_accepts", "box_easy_refuses", "box_easy_accepts",
      "aead_ietf_encrypt_refuses", "aead_ietf_encrypt_accepts", "aead_xchacha_encrypt_refuses", "aead_xchacha_encrypt_accepts",
      "aead_aegis128l_encrypt_refuses", "aead_aegis128l_encrypt_accepts", "aead_aegis256_encrypt_refuses", "aead_aegis256_encrypt_accepts",
      "aead_aes256gcm_encrypt_refuses", "aead_aes256gcm_encrypt_accepts",
      "secretstream_push_refuses", "secretstream_push_accepts", "stream_ietf_refuses", "stream_ietf_accepts",
      "ietf_xor_ic_limit_is_guard", "generichash_outlen_refusal_iff", "generichash_keylen_refusal_iff", "kdf_refusal_iff",
      "hkdf256_refusal_iff", "hkdf512_refusal_iff", "pwhash_outlen_refusal", "pwhash_memlimit_refusal", "pwhash_opslimit_refusal", "pwhash_passwdlen_refusal",
      "bin2hex_refusal_iff", "bin2base64_refusal_iff", "b64EncodedLen_is_model", "pad_limit_is_overflow", "allocarray_refuses_overflow", "randombytes_deterministic_refuses",
      "short_ciphertexts_refused"]
THEOREMS = vcore.theorems_in("SodiumModel/Properties/C12.lean", _T, "Sodium.C12")
IMPORTS = ["SodiumModel.Properties.C12"] if THEOREMS else ["SodiumModel.Model.Limits"]
RULE = ("mem.sweep: for each of 14 API families (stream ciphers: 7 ciphers x keystream / xor / in-place / xor_ic at counter 0.., at the last admissible IETF counter and across the 2^32 and 2^64 carries; "
        "6 AEADs: combined, detached, forged, truncated, NULL m/ad at length 0, ad length pseudo-random 0..149, precomputed AES-GCM key; secretbox / box easy, detached, afternm, sealed and NaCl zero-padded forms; "
        "SHA-256 / SHA-512 / BLAKE2b with every outlen 1..64 and keylen 0..64 / SipHash / Poly1305 / HMAC one-shot and streamed in 3 chunks; secretstream push / pull incl. forged and short chunks; "
        "Ed25519 sign / open / detached / verify / prehashed, forged and non-canonical signatures; hex and 4 Base64 variants: encode, decode of valid, mutated, truncated and separator-laden text with tight capacities; "
        "sodium_pad / unpad with block sizes 1..40 and 64..4096; comparison / arithmetic helpers; HKDF extract / expand for output lengths up to 255*HashLen and the BLAKE2b KDF; "
        "password-hash string verification / needs_rehash on valid Argon2id / Argon2i / scrypt strings truncated at every position, with one character replaced, inserted, or junk appended; "
        "raw password-hash derivation with every OUTPUT length 16..160 into an out buffer of exactly that size (crypto_pwhash with both algorithms, crypto_pwhash_argon2i / argon2id, "
        "crypto_pwhash_scryptsalsa208sha256 at the minimum limits; scrypt _ll with buflen 0..160, N = 2..16, r, p = 1..3, salt length 0..69) and the string forms into exactly STRBYTES with password length 0..160; "
        "fixed-size curve / scalar / key-exchange APIs and hash-to-curve with message length = len) x every length 0..N (N past every internal block and batch size) x placement of EVERY input and output buffer "
        "(exact documented size) on the heap at alignment offset k (k in 0..15, 31, 63 from a 64-byte boundary, prefix poisoned, end tight against the ASan redzone; plain builds: 64 canary bytes on both sides), "
        "ending exactly at a PROT_NONE page, or starting right after one x pseudo-random contents from the seed; each sweep line yields one FNV digest of all outputs and return codes, compared with the "
        "plain native build at placement h0; a sanitizer report, a fault, a corrupted canary or a digest difference is bisected to the smallest failing length. "
        "mem.limit: for every API in the Lean limits table the arguments lo-1, lo, hi, hi+1, hi+2, the largest representable value and pseudo-random values beyond, executed in a forked child "
        "(misuse handler observed by exit code), answers compared with Model/Limits.lean through the model driver")
ASSUMPTIONS = ["hand-written assembly (salsa20 xmm6, curve25519 sandy2x, poly1305/chacha intrinsics are C) is not instrumented by ASan: for it only the guard-page placements (e, s) and the canary / digest comparison detect out-of-bounds accesses",
               "UBSan's alignment and nonnull-attribute checks are disabled because they fire on the unchanged tree (x86 SIMD type-punned loads in the intrinsics code; explicit_bzero / memcpy with (NULL, 0)); "
               "misaligned-access undefined behaviour in portable C code is therefore only observed through its effects",
               "ASan poisons whole 8-byte granules: an under-run of fewer than (offset mod 8) bytes before a heap block at an unaligned offset is not reported by ASan (the s placement and the canaries cover reads before a page-aligned start and all writes)",
               "state objects (hash / MAC / secretstream states, precomputed AES-GCM key) are placed with their natural alignment on the stack, as their types require; only byte-pointer arguments are placed",
               "message-length limits at or near SIZE_MAX cannot be executed at the limit itself (no buffer that large): only the refusal beyond the limit is observed; "
               "limits whose refusal happens after the output buffer was cleared (crypto_pwhash* outlen, crypto_aead_aes256gcm_encrypt) are probed with a contract-sized virtual buffer (aliased shared pages) in plain builds only",
               "the theorems are about the hand-written models of the streaming front-ends, codecs, padding and guards (Model/*.lean); their correspondence with the C code is the subject of C03, C04, C15, C16, not re-run here",
               "password-hash string mutations never raise the cost parameters beyond m = 99 KiB / t = 99 (Argon2) or N = 2^11, r = 8, p = 3 (scrypt): denial of service through attacker-chosen cost parameters is outside C12"]

REF = ("native", "", "plain")
CHUNK = 64
# family -> (quick ranges, thorough ranges)
RANGES = {
    # (the short windows around 4096 / 16384: counter-byte carries and many SIMD batches)
    "stream": ([(0, 640), (4090, 4102)], [(0, 1100), (4080, 4120), (16380, 16390)]),
    "aead": ([(0, 600), (4090, 4102)], [(0, 1100), (4080, 4120), (16380, 16390)]),
    "aesgcm": ([(0, 600), (4060, 4102)], [(0, 1100), (4050, 4120), (16380, 16390)]),
    "secretbox": ([(0, 600), (4094, 4099)], [(0, 1100), (4080, 4120)]),
    "hash": ([(0, 300), (4094, 4099)], [(0, 600), (4080, 4120)]),
    "secretstream": ([(0, 600), (4094, 4099)], [(0, 1100), (4080, 4120)]),
    "sign": ([(0, 200)], [(0, 400)]),
    "codec": ([(0, 120)], [(0, 400)]),
    "pad": ([(0, 100)], [(0, 300)]),
    "utils": ([(0, 200)], [(0, 600)]),
    "kdf": ([(0, 256), (8128, 8160), (16288, 16320)], [(0, 1024), (8000, 8160), (16200, 16320)]),
    "pwhash": ([(0, 135)], [(0, 135)]),
    # len = OUTPUT length of the raw password-hash derivations (exact-size out buffers) / password length of the string forms
    "pwout": ([(0, 160)], [(0, 520), (1020, 1030)]),
    "curve": ([(0, 100)], [(0, 300)]),
}
PLACES_QUICK = ["h0", "h1", "h3", "h7", "h8", "h15", "h31", "h63", "e", "s"]
PLACES_FULL = ["h%d" % k for k in range(16)] + ["h31", "h63", "e", "s"]


def configs(tier):
    if tier == "quick":
        return [REF, ("portable", "", "asan")] + [("native", m, "asan") for m in vcore.MASK_CHAIN]
    out = []
    for v in vcore.VARIANTS:
        for m in vcore.MASK_CHAIN:
            for f in ("plain", "asan"):
                out.append((v, m, f))
    return out


def _label(cfg):
    return "%s/%s/%s" % (cfg[0], cfg[1] or "none", cfg[2])


def _sanitize(err):
    """the first sanitizer / fault report in a stderr text"""
    if not err:
        return ""
    m = re.search(r"(==\d+==ERROR: AddressSanitizer|runtime error:|AddressSanitizer:DEADLYSIGNAL|ops_c12:)", err)
    return err[m.start():][:3000] if m else err[-3000:]


def _run(ctx, exe, lines, mask, want_stderr=False):
    """run op lines; returns (outputs, crash_info or None); a crash leaves outputs shorter than lines"""
    import subprocess
    e = dict(os.environ)
    e["SODIUM_VERIF_CPU_DISABLE"] = mask or ""
    e.setdefault("ASAN_OPTIONS", "detect_leaks=0:abort_on_error=0:allocator_may_return_null=1")
    e.setdefault("UBSAN_OPTIONS", "print_stacktrace=1:halt_on_error=1")
    p = subprocess.run([exe], input="\n".join(lines) + "\n", capture_output=True, text=True, timeout=7200, env=e, cwd=ctx.scratch)
    out = p.stdout.split("\n")
    if out and out[-1] == "":
        out.pop()
    cr = None
    if p.returncode != 0 or len(out) != len(lines):
        cr = {"rc": p.returncode, "lines_out": len(out), "stderr": p.stderr[-6000:]}
    if want_stderr:
        return out, cr, p.stderr
    return out, cr


PTR_OVF = re.compile(r"runtime error: pointer index expression with base 0x[0-9a-f]+ overflowed")


def _only_pointer_overflow(stderr):
    """True if the sanitizer output consists of UBSan pointer-overflow reports only (an address such as `c + mlen` FORMED from the
    out-of-limit length before the length guard refuses the call; nothing is dereferenced). The property quantifies undefined
    behaviour over in-contract calls and requires out-of-limit arguments to be refused, which the plain build shows they are:
    these reports are counted in the evidence (`pointer_formed_before_refusal`) and are not a violation."""
    reps = re.findall(r"runtime error: [^\n]*", stderr or "")
    return bool(reps) and all(PTR_OVF.search(r) for r in reps) and "AddressSanitizer" not in (stderr or "")


def _sweep_specs(tier, rng):
    full = tier != "quick"
    specs = []
    for fam, (q, t) in RANGES.items():
        seed = rng.randrange(1, 1 << 48)
        for (lo, hi) in (t if full else q):
            a = lo
            while a <= hi:
                b = min(a + CHUNK - 1, hi)
                specs.append((fam, a, b, seed))
                a = b + 1
    return specs


def _line(fam, place, lo, hi, seed):
    return "mem.sweep %s %s %d %d %d" % (fam, place, lo, hi, seed)


class _Refs:
    """reference digests from the plain native build at placement h0 (cached; single lengths on demand).
    A line on which the reference build itself faults or reports a corrupted canary has digest None and an entry in .bad"""

    def __init__(self, ctx, exe):
        self.ctx, self.exe, self.d, self.bad = ctx, exe, {}, {}

    def get_many(self, keys):
        need = [k for k in keys if k not in self.d]
        if need:
            lines = [_line(k[0], "h0", k[1], k[2], k[3]) for k in need]
            pos = 0
            while pos < len(lines):
                out, cr = _run(self.ctx, self.exe, lines[pos:], "")
                for i, o in enumerate(out[:len(lines) - pos]):
                    if o.startswith("corrupt"):
                        self.d[need[pos + i]] = None
                        self.bad[need[pos + i]] = ("canary", o, "")
                    else:
                        self.d[need[pos + i]] = o
                pos += len(out)
                if pos < len(lines):         # the reference build itself failed on this line
                    self.d[need[pos]] = None
                    self.bad[need[pos]] = ("crash", None, _sanitize(cr["stderr"]) if cr else "")
                    pos += 1
        return [self.d[k] for k in keys]


def _gcm_available(flags):
    return flags is not None and "gcm=1" in flags


def _bisect(ctx, refs, exe, cfg, spec, place):
    """smallest single length in the range on which the configuration fails; returns (length or None, got, expected, report)"""
    fam, lo, hi, seed = spec
    keys = [(fam, l, l, seed) for l in range(lo, hi + 1)]
    exp = refs.get_many(keys)
    lines = [_line(fam, place, l, l, seed) for l in range(lo, hi + 1)]
    pos = 0
    while pos < len(lines):
        out, cr = _run(ctx, exe, lines[pos:], cfg[1])
        for i, o in enumerate(out[:len(lines) - pos]):
            if o.startswith("corrupt") or (exp[pos + i] is not None and o != exp[pos + i]):
                return lo + pos + i, o, exp[pos + i], ""
        pos += len(out)
        if pos < len(lines):
            return lo + pos, None, exp[pos], _sanitize(cr["stderr"]) if cr else ""
    return None, None, None, ""


def _check_batch(ctx, refs, exe, cfg, flags, place, specs, results):
    """run all sweep lines of one (config, placement); append findings to results"""
    lines = [_line(s[0], place, s[1], s[2], s[3]) for s in specs]
    exp = refs.get_many([tuple(s) for s in specs])
    pos, calls, t0 = 0, 0, time.time()
    findings = []
    while pos < len(lines):
        out, cr = _run(ctx, exe, lines[pos:], cfg[1])
        for i, o in enumerate(out[:len(lines) - pos]):
            k = pos + i
            m = re.search(r"calls=(\d+)", o)
            if m:
                calls += int(m.group(1))
            if o == "unavailable" and specs[k][0] == "aesgcm" and not _gcm_available(flags):
                continue
            if o.startswith("corrupt"):
                findings.append((specs[k], "canary", o, exp[k], ""))
                continue
            if exp[k] is None:
                continue                     # reported once as a failure of the reference run
            if o != exp[k]:
                findings.append((specs[k], "digest" if not o.startswith("corrupt") else "canary", o, exp[k], ""))
        pos += len(out)
        if pos < len(lines):
            findings.append((specs[pos], "crash", None, exp[pos], _sanitize(cr["stderr"]) if cr else ""))
            pos += 1
    results.append({"cfg": cfg, "place": place, "lines": len(lines), "calls": calls, "wall": time.time() - t0, "findings": findings})


def _limit_lines(ctx, tier, rng):
    """probe arguments for every entry of the Lean limits table"""
    tbl = vcore.run_model(ctx, ["mem.limits"])[0]
    entries, lines_plain, lines_all = [], [], []
    for e in tbl.split(";"):
        api, lo, hi, amax, huge, probes = e.split(",")
        lo, hi, amax, huge = int(lo), int(hi), int(amax), huge == "1"
        probes = [int(x) for x in probes.split("/") if x != ""]
        entries.append(api)
        args = set(probes)
        if lo > 0:
            args |= {lo - 1, 0, lo // 2}
        beyond = set()
        if hi < amax:
            beyond |= {hi + 1, hi + 2}
            if not huge:
                beyond |= {amax, amax - 1, (hi + amax) // 2, rng.randrange(hi + 1, amax + 1), rng.randrange(hi + 1, min(amax, 2 * hi + 1000) + 1)}
        for a in sorted(args):
            lines_all.append("mem.limit %s %d" % (api, a))
        for a in sorted(x for x in beyond if hi < x <= amax):
            if huge:
                if tier == "quick" and a > (8 << 30):
                    continue                 # aliased virtual buffers above 8 GiB only in the thorough tier
                lines_plain.append("mem.limit %s %d" % (api, a))
            else:
                lines_all.append("mem.limit %s %d" % (api, a))
    return entries, lines_all, lines_plain


def extra(ctx, rng):
    tier = ctx.tier
    cfgs = configs(tier)
    places = PLACES_QUICK if tier == "quick" else PLACES_FULL
    # builds, in parallel
    pairs = sorted({(c[0], c[2]) for c in cfgs} | {(REF[0], REF[2])})
    with ThreadPoolExecutor(max_workers=4) as ex:
        list(ex.map(lambda p: vcore.build_lib(ctx, p[0], p[1]), pairs))
    with ThreadPoolExecutor(max_workers=8) as ex:
        list(ex.map(lambda p: vcore.build_hx(ctx, p[0], p[1]), pairs))
    ctx.log("built %d library / harness pairs" % len(pairs))
    exes = {c: vcore.build_hx(ctx, c[0], c[2]) for c in cfgs}
    ref_exe = vcore.build_hx(ctx, REF[0], REF[2])
    flags = {}
    for c in cfgs:
        fl, _ = vcore.run_impl(ctx, exes[c], ["rt.flags"], c[1])
        flags[c] = fl[0] if fl else None
    specs = _sweep_specs(tier, rng)
    refs = _Refs(ctx, ref_exe)
    t = time.time()
    refs.get_many([tuple(s) for s in specs])
    ctx.log("reference digests for %d sweep lines in %.1fs" % (len(specs), time.time() - t))
    model = vcore.run_model(ctx, [_line(s[0], "h0", s[1], s[2], s[3]) for s in specs[:3]])
    if any(m != "digest" for m in model):
        raise vcore.BrokenCheck("model driver does not acknowledge mem.sweep lines: %s" % model)
    # a failure of the reference build itself (fault / corrupted canary in the plain native build) is reported like any other
    results = []
    ref_find = [(s, refs.bad[tuple(s)][0], refs.bad[tuple(s)][1], None, refs.bad[tuple(s)][2]) for s in specs if tuple(s) in refs.bad]
    if ref_find:
        results.append({"cfg": REF, "place": "h0", "lines": 0, "calls": 0, "wall": 0.0, "findings": ref_find})
    # all (config, placement) batches in parallel; slow builds first
    tasks = [(c, p) for c in cfgs for p in places]
    tasks.sort(key=lambda cp: (cp[0][2] != "asan", cp[0][0] != "portable"))
    t = time.time()
    with ThreadPoolExecutor(max_workers=int(os.environ.get("VERIF_JOBS", "16"))) as ex:
        futs = [ex.submit(_check_batch, ctx, refs, exes[c], c, flags[c], p, specs, results) for (c, p) in tasks]
        for f in futs:
            f.result()
    ctx.log("%d sweep batches (%d configurations x %d placements x %d lines) in %.1fs" % (len(tasks), len(cfgs), len(places), len(specs), time.time() - t))
    total_calls, nrep = 0, 0
    per_cfg, allf, seen = {}, [], {}
    for r in results:
        total_calls += r["calls"]
        d = per_cfg.setdefault(r["cfg"], {"lines": 0, "calls": 0, "wall": 0.0})
        d["lines"] += r["lines"]; d["calls"] += r["calls"]; d["wall"] += r["wall"]
        allf += [(r["cfg"], r["place"]) + f for f in r["findings"]]
    ctx.stats["failing_sweep_lines"] = len(allf)
    # sanitizer reports first (they name the access), then canaries, then bare digest differences; lowest range first
    allf.sort(key=lambda f: ({"crash": 0, "canary": 1, "digest": 2}[f[3]], f[2][1], f[2][0], _label(f[0]), f[1]))
    for (c, place, spec, kind, got, exp, rep) in allf:
        if nrep >= 8:
            break
        if seen.get((spec[0], kind), 0) >= 2:          # at most two reports per family and kind of observation
            continue
        seen[(spec[0], kind)] = seen.get((spec[0], kind), 0) + 1
        l, g1, e1, rep1 = _bisect(ctx, refs, exes[c] if c in exes else ref_exe, c, spec, place)
        if l is not None:
            one, got1, exp1, rep = _line(spec[0], place, l, l, spec[3]), g1, e1, (rep1 or rep)
        else:                                # only the whole range fails (state carried across lengths)
            one, got1, exp1 = _line(spec[0], place, spec[1], spec[2], spec[3]), got, exp
        vcore.report(ctx, "memory-error", {"op": one, "ref_op": re.sub(r"^(mem\.sweep \S+) \S+", r"\1 h0", one), "variant": c[0], "mask": c[1], "flavour": c[2],
                                           "family": spec[0], "place": place, "failing_length": l, "range": [spec[1], spec[2]], "observed": kind,
                                           "impl": got1, "expected_digest": exp1, "sanitizer_report": (rep or "")[:3000], "failing_sweep_lines_total": len(allf),
                                           "explanation": "a sanitizer report, fault or corrupted canary, or outputs that differ from the plain native build at placement h0, on buffers of exactly the documented size"})
        nrep += 1
    for c in cfgs:
        d = per_cfg.get(c, {"lines": 0, "calls": 0, "wall": 0.0})
        ctx.configs_run.append({"variant": c[0], "mask": c[1] or "none", "flavour": c[2], "sweep_lines": d["lines"], "api_calls": d["calls"], "cpu_s": round(d["wall"], 1), "runtime_flags": flags[c]})
    ctx.evaluations += sum(r["lines"] for r in results)
    for s in specs:
        for p in places:
            ctx.distinct.add(hash((s, p)))
    lengths = sum(s[2] - s[1] + 1 for s in specs)
    ctx.stats.update({"families": sorted(RANGES), "places": places, "sweep_lines_per_placement": len(specs), "lengths_per_placement": lengths,
                      "length_ranges": {f: (RANGES[f][1] if tier != "quick" else RANGES[f][0]) for f in RANGES},
                      "api_calls_total": total_calls, "configurations": len(cfgs), "seed_per_family": {s[0]: s[3] for s in specs}})
    ctx.samples = [{"op": _line(s[0], places[i % len(places)], s[1], s[2], s[3]), "reference": refs.d.get(tuple(s))} for i, s in enumerate(specs[::max(1, len(specs) // 8)])]

    # ---- size limits
    entries, lines_all, lines_plain = _limit_lines(ctx, tier, rng)
    t = time.time()

    def limits_on(c):
        lines = lines_all + (lines_plain if c[2] == "plain" else [])
        model = vcore.run_model(ctx, lines)
        if any(m in ("bad-op", "bad-args") for m in model):
            raise vcore.BrokenCheck("limit probes the model driver rejects: %s" % [l for l, m in zip(lines, model) if m in ("bad-op", "bad-args")][:3])
        out, cr = _run(ctx, exes[c], lines, c[1])
        bad, known = [], []
        if c == REF:
            plain_ok.update(dict(zip(lines, out)))
        if cr is not None or len(out) != len(lines):
            bad.append((lines[min(len(out), len(lines) - 1)], None, None, _sanitize(cr["stderr"]) if cr else ""))
        for l, o, m in zip(lines, out, model):
            if o == m:
                continue
            if o == "unavailable" and "aes256gcm" in l and not _gcm_available(flags[c]):
                continue
            rep = ""
            if o == "crash":                 # the child faulted or a sanitizer stopped it: fetch its report
                _, _, rep = _run(ctx, exes[c], [l], c[1], want_stderr=True)
                if _only_pointer_overflow(rep) and plain_ok.get(l, m) == m:
                    known.append(l.split(" ")[1])
                    continue
            bad.append((l, o, m, _sanitize(rep)))
        return c, len(lines), bad, known

    lim_cfgs = [c for c in cfgs if c[1] in ("", vcore.ALL_OFF)]
    nl = 0
    plain_ok = {}
    if REF not in lim_cfgs:
        lim_cfgs = [REF] + lim_cfgs
    first = limits_on(lim_cfgs[0]) if lim_cfgs[0] == REF else None    # the plain native answers first: a known finding must leave them correct
    with ThreadPoolExecutor(max_workers=8) as ex:
        rest = list(ex.map(limits_on, [c for c in lim_cfgs if first is None or c != REF]))
    for (c, n, bad, known) in ([first] if first else []) + rest:
        if True:
            nl += n
            for api in known:
                d = ctx.stats.setdefault("pointer_formed_before_refusal", {})
                d[api] = d.get(api, 0) + 1
            for (l, o, m, rep) in bad[:4]:
                vcore.report(ctx, "limit-not-refused", {"op": l, "variant": c[0], "mask": c[1], "flavour": c[2], "impl": o, "model": m, "sanitizer_report": rep,
                                                        "explanation": "the observable for this size argument differs from Model/Limits.lean (misuse = misuse handler called, rc=… = return value, crash = the call faulted on its small buffers, i.e. the argument was processed)"})
    ctx.evaluations += nl
    ctx.stats.update({"limit_apis": len(entries), "limit_probes": nl, "limit_probe_sample": lines_all[:6] + lines_plain[:4]})
    ctx.log("%d limit probes on %d configurations in %.1fs; violations %d" % (nl, len(lim_cfgs), time.time() - t, len(ctx.violations)))


def replay(ctx, r):
    cfg = (r.get("variant", "native"), r.get("mask", ""), r.get("flavour", "plain"))
    exe = vcore.build_hx(ctx, cfg[0], cfg[2])
    line = r["op"]
    out, cr = vcore.run_impl(ctx, exe, [line], cfg[1])
    print("op     :", line)
    print("config :", _label(cfg))
    print("impl   :", out[0] if out else "crashed: %s" % _sanitize(cr["stderr"] if cr else "")[:1500])
    if line.startswith("mem.limit"):
        m = vcore.run_model(ctx, [line])[0]
        print("model  :", m)
        bad = not out or out[0] != m
    else:
        ref_exe = vcore.build_hx(ctx, REF[0], REF[2])
        ro, _ = vcore.run_impl(ctx, ref_exe, [r.get("ref_op", line)], "")
        print("ref    :", ro[0] if ro else "reference build crashed")
        bad = (not out) or cr is not None or (ro and out[0] != ro[0]) or out[0].startswith("corrupt")
    if bad:
        print("VIOLATION property=C12 replay=(this file)")
        return 1
    print("no failure on the current tree")
    return 0
