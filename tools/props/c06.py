"""C06 — Ed25519: RFC 8032 signing, complete and sound strict verification (DESIGN §3.6)."""
import vcore, edpy
from vcore import hexs

ID = "C06"
LEVEL = "proof"
_T = ["sc_is_canonical_iff", "ge_is_canonical_iff", "high_bits_imply_canonical_test", "verify_decision", "open_forms", "completeness_abstract", "order8_difference_rejected", "order8_difference_rfc_valid", "order4_difference_accepted"]
THEOREMS = vcore.theorems_in("SodiumModel/Properties/C06.lean", _T, "Sodium.C06")
IMPORTS = ["SodiumModel.Properties.C06"] if THEOREMS else ["SodiumModel.Spec.Ed25519"]
TABLES = ['sc25519_L_eq', 'dom2prefix_eq']      # Tie B: kernel-checked `table regenerated from the source = model table`
# the ge25519 group-operation code (point formulas, signed-window recoding, constant-time table lookups, the three scalar multiplications, base tables) in the C's structure
THEOREMS = THEOREMS + vcore.theorems_in("SodiumModel/Properties/C06Ge.lean", ['isCached_sc', 'isPrecomp_sc', 'extEq_of_sc', 'p1p1_to_p3_extended', 'p1p1_to_p2_eq', 'p3_to_cached_correct', 'add_cached_correct', 'sub_cached_correct', 'madd_correct', 'msub_correct', 'p2_dbl_correct', 'p3_dbl_correct', 'p2_dbl_negated', 'add_cached_coordinatewise', 'p3_add_correct', 'p3_sub_correct', 'neutral_elements', 'recode_correct', 'recode_digits_in_range', 'recode_top_digit_out_of_range', 'scalarmult_drops_top_digit', 'slide_vartime_correct', 'slide_vartime_loses_carry', 'cmov8_cached_lookup', 'cmov8_lookup', 'cmov8_cached_multiple', 'cmov8_cached_out_of_range', 'cmov8_multiple', 'eff_sum_eq', 'scalarmult_abstract', 'scalarmult_abstract_general', 'scalarmult_base_abstract', 'double_scalarmult_abstract', 'double_scalarmult_abstract_exact', 'scalarmult_spec', 'scalarmult_base_spec', 'double_scalarmult_spec', 'base_tables_correct', 'scalarmult_base_correct', 'double_scalarmult_correct', 'mul_l_abstract', 'is_on_main_subgroup_spec', 'fe25519_invert_correct', 'fe25519_pow22523_correct', 'has_small_order_correct', 'is_on_curve_correct', 'is_on_curve_weaker_than_spec'], "Sodium.C06Ge")
IMPORTS = IMPORTS + ["SodiumModel.Properties.C06Ge", "SodiumModel.Properties.C06Full", "SodiumModel.Properties.C06Full2", "SodiumModel.Properties.C06Full3"]
THEOREMS = THEOREMS + vcore.theorems_in("SodiumModel/Properties/C06Full.lean", ['denominator_ne_zero', 'frombytes_candidate_correct', 'rfc_candidate_correct', 'negate_candidate_is_rfc', 'root_formulas_agree', 'frombytes_sign_selection', 'frombytes_negate_sign_selection', 'slide_vartime_exact', 'slide_vartime_exact_canonical', 'assembled_primitives_correct', 'verifier_hash', 'verify_assembled', 'verify_returns_zero_iff'], "Sodium.C06Full")
THEOREMS = THEOREMS + vcore.theorems_in("SodiumModel/Properties/C06Full2.lean", ['frombytes_is_lax_decode', 'frombytes_negate_is_lax_decode_neg', 'frombytes_closed_form', 'frombytes_accepts_x0_with_sign_bit', 'frombytes_accepts_noncanonical_y', 'p3_tobytes_is_encode', 'tobytes_is_encode', 'p3_tobytes_affine', 'decode_encode_id', 'frombytes_p3_tobytes', 'seed_keypair_is_rfc', 'detached_is_rfc', 'detached_ph_is_rfc', 'detached_any_pk', 'spec_scalarMult_rep', 'faithful_excludes_trivial'], "Sodium.C06Full2")
THEOREMS = THEOREMS + vcore.theorems_in("SodiumModel/Properties/C06Full3.lean", ['sign_then_verify', 'keypair_sign_verify', 'final_test_passes_on_honest', 'check_coordinates', 'true_difference', 'has_small_order_field', 'final_test_exact', 'final_test_group', 'accept_implies'], "Sodium.C06Full3")
FINGERPRINTS = "C06"     # Tie B: pinned source text of the transcribed ge25519 functions (tools/fingerprint.py)
TIEB_SC = True     # Tie B: the sc25519 limb model is re-transcribed from the current source and the proofs re-checked against it
RULE = ("all message lengths 0..300: seeded key pair, detached / combined / multi-part (pre-hashed) signing, verification in every form (the harness requires detached verify and "
        "combined open to agree and open to zero the buffer on failure); adversarial triples built with knowledge of the secret scalar so that exactly one check must stop them: "
        "S + k*L, S with high bits set, every torsion point and its non-canonical aliases as A and as R, torsion-shifted R and A with matching S, non-canonical y >= p, "
        "bit flips at every position of signature, public key and message; Ed25519 <-> X25519 key conversion")
ASSUMPTIONS = ["the twisted-Edwards group law, SHA-512 and the concrete curve being a group are translation-validated against the executable RFC 8032 specification over naturals"]
P, LL = edpy.p, edpy.L



def tie_b(ctx):
    """the precomputed base-point tables (fe_51/base.h, base2.h, constants.h) are re-extracted from the current source; if the text differs the kernel re-checks
    all 264 entries against the specification base point (Proofs/Ge25519TablesOK.lean) and the theorems that use them"""
    import subprocess, sys, os
    gen = lambda out: subprocess.run([sys.executable, os.path.join(vcore.VERIF, "tools", "gen_ge_base.py"), os.path.join(vcore.REPO, "src", "libsodium"), out], capture_output=True, text=True)
    r = vcore.tie_b_regen(ctx, "ge25519 precomputed tables (tools/gen_ge_base.py)", gen, "SodiumModel/Model/Ge25519Tables.lean", "SodiumModel.Properties.C06Ge",
                          ["Sodium.C06Ge.base_tables_correct", "Sodium.C06Ge.scalarmult_base_correct", "Sodium.C06Ge.double_scalarmult_correct"])
    ctx.log("Tie B: ge25519 base tables re-extracted from the source, %s" % ("identical / proofs hold" if not r else "CHANGED: %s" % [x[0] for x in r]))
    return r


def configs(tier):
    if tier == "quick":
        return [("native", "", "plain"), ("noti", "", "plain"),
                ("native", "", "plain", {"HX_FILL": "255"})]      # output buffers start all-ones (a non-canonical encoding) instead of stack leftovers
    return [(v, "", "plain") for v in vcore.VARIANTS]


def rb(rng, n):
    return bytes(rng.getrandbits(8) for _ in range(n))


def le32(v):
    return (v % (1 << 256)).to_bytes(32, "little")


def aliases(P_):
    """canonical and non-canonical encodings of a point (y + p when it fits in 255 bits, both sign bits when x = 0)"""
    out = [edpy.enc(P_)]
    x, y = P_
    if y + P < (1 << 255):
        out.append(((y + P) | ((x & 1) << 255)).to_bytes(32, "little"))
    if x == 0:
        out.append((y | (1 << 255)).to_bytes(32, "little"))
        if y + P < (1 << 255):
            out.append(((y + P) | (1 << 255)).to_bytes(32, "little"))
    return out


def gen(ctx, tier, rng):
    L = []
    full = tier == "thorough"
    seeds = [rb(rng, 32) for _ in range(3)]
    for n in (range(0, 301) if full else list(range(0, 100)) + list(range(100, 301, 9)) + [127, 128, 129, 255, 256]):
        seed = rng.choice(seeds)
        m = rb(rng, n)
        pk = edpy.pubkey(seed)
        sk = seed + pk
        sig = edpy.sign(seed, m)
        L.append("sign.detached %s %s" % (hexs(m), hexs(sk)))
        L.append("sign.verify %s %s %s" % (hexs(sig), hexs(m), hexs(pk)))
        if n % 4 == 0:
            cut = rng.randrange(0, n + 1)
            L.append("sign.ph create %s %s %s" % (hexs(sk), hexs(m[:cut]), hexs(m[cut:])))
            L.append(("PH", sk, pk, m))
        # a flipped bit in each field
        for fld in range(3):
            s2, m2, pk2 = bytearray(sig), bytearray(m), bytearray(pk)
            tgt = (s2, m2, pk2)[fld]
            if len(tgt):
                i = rng.randrange(8 * len(tgt))
                tgt[i // 8] ^= 1 << (i % 8)
                L.append("sign.verify %s %s %s" % (hexs(bytes(s2)), hexs(bytes(m2)), hexs(bytes(pk2))))
        L.append("sign.open %s %s" % (hexs(sig + m), hexs(pk)))
        L.append("sign.open %s %s" % (hexs((sig + m)[:rng.randrange(0, 64 + n + 1)]), hexs(pk)))
    for s in seeds + [bytes(32), b"\xff" * 32]:
        L.append("sign.seed_keypair %s" % hexs(s))
        pk = edpy.pubkey(s)
        L.append("sign.pk_to_curve %s" % hexs(pk))
        L.append("sign.sk_to_curve %s" % hexs(s + pk))
    # dense bit flips on one short triple
    seed = seeds[0]
    m = b"verification"
    pk = edpy.pubkey(seed)
    sig = edpy.sign(seed, m)
    for i in range(8 * 64):
        s2 = bytearray(sig)
        s2[i // 8] ^= 1 << (i % 8)
        L.append("sign.verify %s %s %s" % (hexs(bytes(s2)), hexs(m), hexs(pk)))
    for i in range(8 * 32):
        p2 = bytearray(pk)
        p2[i // 8] ^= 1 << (i % 8)
        L.append("sign.verify %s %s %s" % (hexs(sig), hexs(m), hexs(bytes(p2))))
    # adversarial, equation-satisfying forgeries
    a, prefix = edpy.expand(seed)
    A = edpy.mul(a, edpy.B)
    S = int.from_bytes(sig[32:], "little")
    R = sig[:32]
    for k in range(1, 16):                                   # S + k*L (non-canonical S)
        v = S + k * LL
        if v < (1 << 256):
            L.append("sign.verify %s %s %s" % (hexs(R + le32(v)), hexs(m), hexs(pk)))
    for bit in range(252, 256):
        L.append("sign.verify %s %s %s" % (hexs(R + le32(S | (1 << bit))), hexs(m), hexs(pk)))
    for T in edpy.TORSION:
        for Tenc in aliases(T):
            # R = T (small order), S = h*a : satisfies the equation, must be stopped by the small-order-R check
            h = edpy.hram(Tenc, pk, m)
            L.append("sign.verify %s %s %s" % (hexs(Tenc + le32(h * a % LL)), hexs(m), hexs(pk)))
            # A = T (small order public key), R = r*B, S = r : equation holds up to torsion
            r = rng.randrange(1, LL)
            Renc = edpy.enc(edpy.mul(r, edpy.B))
            L.append("sign.verify %s %s %s" % (hexs(Renc + le32(r)), hexs(m), hexs(Tenc)))
            L.append("sign.pk_to_curve %s" % hexs(Tenc))
        # torsion-shifted R with matching S; torsion-shifted A
        r = rng.randrange(1, LL)
        Rp = edpy.add(edpy.mul(r, edpy.B), T)
        Renc = edpy.enc(Rp)
        h = edpy.hram(Renc, pk, m)
        L.append("sign.verify %s %s %s" % (hexs(Renc + le32((r + h * a) % LL)), hexs(m), hexs(pk)))
        Ap = edpy.enc(edpy.add(A, T))
        Renc2 = edpy.enc(edpy.mul(r, edpy.B))
        h2 = edpy.hram(Renc2, Ap, m)
        L.append("sign.verify %s %s %s" % (hexs(Renc2 + le32((r + h2 * a) % LL)), hexs(m), hexs(Ap)))
        L.append("sign.pk_to_curve %s" % hexs(Ap))
    # mixed-order public key A' = A + T combined with a small-order R and S = h*a: the cofactored equation holds
    # (S*B - h*A' = -h*T is small order, and so is R), so ONLY the small-order-R test stands between this forgery and acceptance;
    # several messages so that h mod 8 takes every value
    for T in edpy.TORSION:
        if T == edpy.TORSION[0] and edpy.enc(T) == edpy.enc(edpy.mul(0, edpy.B)) if hasattr(edpy, "TORSION") else False:
            continue
        Ap = edpy.enc(edpy.add(A, T))
        for T2 in edpy.TORSION:
            for Tenc in aliases(T2):
                for j in range(6 if tier != "thorough" else 16):
                    m2 = m + bytes([j])
                    h = edpy.hram(Tenc, Ap, m2)
                    L.append("sign.verify %s %s %s" % (hexs(Tenc + le32(h * a % LL)), hexs(m2), hexs(Ap)))
    # non-canonical public key / R encodings of ordinary points: y + p does not fit for random points, so use small y
    for y in range(0, 19):
        for sb in (0, 1):
            e = ((y + P) | (sb << 255)).to_bytes(32, "little")
            L.append("sign.verify %s %s %s" % (hexs(sig), hexs(m), hexs(e)))
            L.append("sign.verify %s %s %s" % (hexs(e + sig[32:]), hexs(m), hexs(pk)))
            L.append("sign.pk_to_curve %s" % hexs(e))
    return L


def post_model(ctx, T, run_model):
    base = [l for l in T if isinstance(l, str)]
    pend = [l for l in T if not isinstance(l, str)]
    q = ["sign.ph create %s %s" % (hexs(t[1]), hexs(t[3])) for t in pend]
    outs = run_model(q)
    rng = __import__("random").Random(ctx.seed + 3)
    L = []
    for t, sig in zip(pend, outs):
        _, sk, pk, m = t
        cut = rng.randrange(0, len(m) + 1)
        L.append("sign.ph verify %s %s %s %s -" % (sig, hexs(pk), hexs(m[:cut]), hexs(m[cut:])))
        L.append("sign.ph verify %s %s %s" % (sig, hexs(pk), hexs(m + b"x")))
        L.append("sign.verify %s %s %s" % (sig, hexs(m), hexs(pk)))        # a pre-hashed signature is not a plain one
        # domain separation in both directions: a PLAIN signature over SHA-512(m) (resp. over m) must not pass multi-part verification of m, and the
        # pre-hashed signature must not pass plain verification of SHA-512(m)
        import hashlib
        d = hashlib.sha512(m).digest()
        L.append("sign.ph verify %s %s %s" % (hexs(edpy.sign(sk[:32], d)), hexs(pk), hexs(m) if m else "-"))
        L.append("sign.ph verify %s %s %s" % (hexs(edpy.sign(sk[:32], m)), hexs(pk), hexs(m) if m else "-"))
        L.append("sign.verify %s %s %s" % (sig, hexs(d), hexs(pk)))
    return base + L
