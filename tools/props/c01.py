"""C01 — authenticated encryption computes the standard constructions and round-trips (DESIGN §3.1)."""
import vcore
from vcore import hexs

ID = "C01"
LEVEL = "proof"
_T = ["ietf_macData_eq_rfc", "combined_eq_detached", "roundtrip_detached", "roundtrip_combined", "x_roundtrip",
      "secretbox_detached_eq_spec", "secretbox_easy_eq", "secretbox_roundtrip", "nacl_box_eq_easy", "nacl_open_box"]
THEOREMS = vcore.theorems_in("SodiumModel/Properties/C01.lean", _T, "Sodium.C01")
IMPORTS = ["SodiumModel.Properties.C01"] if THEOREMS else ["SodiumModel.Model.Aead"]
# the portable AEGIS code (aegis*_common.h over the SoftAesBlock backend, softaes.c's table-based round) modelled in the C's structure and proved = Spec at every length
THEOREMS = THEOREMS + vcore.theorems_in("SodiumModel/Properties/C01Aegis.lean", ['softaes_block_encrypt_is_aes_round', 'softaes_block_encrypt_bytes', 'aes_lut_from_sbox', 'ct_lookup_exact', 'soft_backend_ok', 'softaes_load_store', 'softaes_load64x2_order', 'aegis128l_update_eq', 'aegis256_update_eq', 'aegis128l_init_eq', 'aegis128l_absorb_eq', 'aegis128l_enc_eq', 'aegis128l_dec_eq', 'aegis128l_declast_eq', 'aegis128l_mac_eq', 'aegis256_init_eq', 'aegis256_absorb_eq', 'aegis256_enc_eq', 'aegis256_dec_eq', 'aegis256_declast_eq', 'aegis256_mac_eq', 'aegis128l_encrypt_detached_eq', 'aegis256_encrypt_detached_eq', 'aegis128l_encrypt_detached_generic', 'aegis256_encrypt_detached_generic', 'aegis128l_decrypt_detached_eq', 'aegis256_decrypt_detached_eq', 'aegis128l_decrypt_detached_32', 'aegis256_decrypt_detached_32', 'decrypt_detached_failure_output', 'decrypt_detached_bad_maclen', 'aegis128l_decrypt_detached_rc', 'aegis256_decrypt_detached_rc', 'aegis128l_spec_roundtrip', 'aegis256_spec_roundtrip', 'aegis128l_output_lengths', 'aegis256_output_lengths', 'aegis128l_roundtrip', 'aegis256_roundtrip', 'messagebytes_max', 'crypto_aead_aegis128l_encrypt_detached_eq', 'crypto_aead_aegis256_encrypt_detached_eq', 'crypto_aead_encrypt_combined', 'crypto_aead_aegis128l_encrypt_eq', 'crypto_aead_aegis256_encrypt_eq', 'crypto_aead_aegis128l_decrypt_detached_eq', 'crypto_aead_aegis256_decrypt_detached_eq', 'crypto_aead_decrypt_short', 'crypto_aead_decrypt_combined', 'crypto_aead_aegis128l_decrypt_eq', 'crypto_aead_aegis256_decrypt_eq'], "Sodium.C01Aegis")
IMPORTS = IMPORTS + ["SodiumModel.Properties.C01Aegis", "SodiumModel.Properties.C01AegisAesni"]
# the AES-NI instantiation of the same generic code (AESENC defined through the FIPS 197 round, validated against the CPU on every run)
THEOREMS = THEOREMS + vcore.theorems_in("SodiumModel/Properties/C01AegisAesni.lean", ['aesni_backend_ok', 'mm_aesenc_is_aes_round', 'aesni_load64x2_order', 'aesenc_eq_softaes', 'aegis128l_aesni_encrypt_detached_eq', 'aegis256_aesni_encrypt_detached_eq', 'aegis128l_aesni_decrypt_detached_eq', 'aegis256_aesni_decrypt_detached_eq', 'aegis128l_aesni_decrypt_detached_32', 'aegis256_aesni_decrypt_detached_32', 'aegis128l_aesni_decrypt_detached_rc', 'aegis256_aesni_decrypt_detached_rc', 'aesni_decrypt_detached_failure_output', 'aegis128l_aesni_roundtrip', 'aegis256_aesni_roundtrip', 'crypto_aead_aegis128l_aesni_encrypt_detached_eq', 'crypto_aead_aegis256_aesni_encrypt_detached_eq', 'crypto_aead_aegis128l_aesni_decrypt_detached_eq', 'crypto_aead_aegis256_aesni_decrypt_detached_eq', 'aesni_eq_soft_128L', 'aesni_eq_soft_256', 'aesni_eq_soft', 'aesni_eq_soft_decrypt'], "Sodium.C01AegisAesni")


# AES-256-GCM (aead_aes256gcm_aesni.c: key schedule, counter batches, PCLMUL multiplication + reduction, aggregated GHASH, encrypt / decrypt loops, wrappers, limits) = SP 800-38D end to end
THEOREMS = THEOREMS + vcore.theorems_in("SodiumModel/Properties/C01Gcm.lean", ['expand256_is_fips197', 'expand256_count', 'encrypt_is_cipher', 'encrypt_is_aes256', 'encrypt_xor_block_is_ctr_block', 'encrypt_xor_wide_is_7_blocks', 'counter_init', 'incr_counters_exact', 'counter_step_exact', 'spec_counter_block', 'counter_wrap_deviation', 'counter_wrap_unreachable', 'clmul_reduce_is_gf128_mul', 'clsq_is_square', 'beforenm_table_ok', 'aggregated_is_sequential', 'gh_ad_blocks_is_sequential', 'sequential_is_ghash', 'encrypt_generic_is_ctr_ghash', 'decrypt_generic_is_ctr_ghash', 'ctr_blocks_explicit', 'final_block_is_len_block', 'encrypt_detached_is_gcm', 'encrypt_detached_indep_of_uninit', 'encrypt_is_gcm', 'decrypt_detached_is_gcm', 'decrypt_is_gcm', 'decrypt_short_input', 'encrypt_beyond_limits', 'decrypt_beyond_limits', 'required_blocks_accepts_iff', 'messagebytes_max_refused'], "Sodium.C01Gcm")
IMPORTS = IMPORTS + ["SodiumModel.Properties.C01Gcm"]


def tie_b(ctx):
    vcore.simd_check(ctx, "aegis", "intrinsics_check.c", ["-maes", "-msse2"], "SimdCheck.lean", True)
    vcore.simd_check_script(ctx, "gcm")
    return []

FINGERPRINTS = "C01"     # Tie B: pinned source text of the transcribed AEGIS / softaes files (tools/fingerprint.py)
RULE = ("encrypt ops for ChaCha20-Poly1305 (orig, IETF), XChaCha20-Poly1305, AES-256-GCM, AEGIS-128L/256, secretbox (XSalsa20 / XChaCha20), "
        "NaCl zero-padded form and box precomputation: every message length 0..2100 for the IETF AEAD and secretbox, sampled/boundary lengths "
        "for the others, ad lengths 0..70; the harness additionally requires detached = combined, easy = mac||detached and decrypt(encrypt) = m "
        "in both forms for every case; configurations = CPU masks and build variants")
ASSUMPTIONS = ["block / round / MAC primitives are parameters of the theorems, tied to the specs by correspondence (C03, C04); AES-256-GCM and AEGIS are modelled in the C's structure and proved "
               "equal to the executable SP 800-38D / AEGIS specifications (C01Gcm, C01AegisAesni) over intrinsic semantics validated against the CPU; the portable AEGIS code (generic *_common.h + table-based software AES) is modelled and proved (C01Aegis)"]
AEADS = [("chachapoly", 32, 8), ("chachapoly_ietf", 32, 12), ("xchachapoly", 32, 24), ("aes256gcm", 32, 12), ("aegis128l", 16, 16), ("aegis256", 32, 32)]


def configs(tier):
    if tier == "quick":
        return [("native", "", "plain"), ("native", "avx512f,avx2", "plain"), ("native", vcore.ALL_OFF, "plain"),
                ("native", "", "plain", {"HX_ALIGN": "5"})]     # every buffer 5 bytes past a malloc boundary (misaligned for 2/4/8/16/32)
    return [(v, m, "plain") for v in vcore.VARIANTS for m in vcore.MASK_CHAIN]


def unavailable_ok(ctx, cfg, line):
    # AES-256-GCM is hardware only: unavailable whenever the configuration lacks AES-NI / PCLMUL / AVX or the build lacks the intrinsics
    return line.startswith("aead.aes256gcm") and (cfg[0] == "portable" or any(t in (cfg[1] or "") for t in ("aesni", "pclmul", "avx1")) or cfg[0] in ("noasm", "noti"))


def rb(rng, n):
    return bytes(rng.getrandbits(8) for _ in range(n))


def post_model(ctx, lines, run_model):
    """sealed boxes made by the MODEL (scripted ephemeral key) are opened by the implementation and by the model: decrypting the specified output returns the message"""
    import random
    rng = random.Random(ctx.seed * 31 + 7)
    extra = []
    for n in (0, 1, 16, 33, 100, 257):
        for (api, op) in (("seal", "seal.open"), ("sealx", "seal.openx")):
            pk, sk = run_model(["box.seed_keypair %s" % hexs(rb(rng, 32))])[0].split(" ")
            o = run_model(["rng.gen %s %s %s %s" % (api, hexs(rb(rng, 32)), hexs(rb(rng, n)) if n else "-", pk)])[0].split(" ")
            if len(o) != 3 or o[1] != "0":
                raise vcore.BrokenCheck("model did not produce a sealed box: %s" % o[:2])
            extra.append("%s %s %s %s" % (op, o[2], pk, sk))
    return lines + extra


def gen(ctx, tier, rng):
    L = []
    full = tier == "thorough"
    sparse = sorted(set(list(range(0, 130)) + list(range(130, 2101, 37)) + [255, 256, 257, 511, 512, 513, 1023, 1024, 1025, 2047, 2048, 2049, 2100]))
    for n in range(0, 2101):
        m = rb(rng, n)
        ad = rb(rng, rng.choice([0, 0, 1, 12, 15, 16, 17, 31, 32, 33, 64, 70]))
        L.append("aead.chachapoly_ietf.enc %s %s %s %s" % (hexs(m), hexs(ad), hexs(rb(rng, 12)), hexs(rb(rng, 32))))
        L.append("secretbox.xsalsa.enc %s %s %s" % (hexs(m), hexs(rb(rng, 24)), hexs(rb(rng, 32))))
        if full or n in sparse:
            for (name, kb, nb) in AEADS:
                if name == "chachapoly_ietf":
                    continue
                ad = rb(rng, rng.randrange(0, 71))
                L.append("aead.%s.enc %s %s %s %s" % (name, hexs(m), hexs(ad), hexs(rb(rng, nb)), hexs(rb(rng, kb))))
            L.append("secretbox.xchacha.enc %s %s %s" % (hexs(m), hexs(rb(rng, 24)), hexs(rb(rng, 32))))
            L.append("secretbox.nacl.box %s %s %s" % (hexs(bytes(32) + m), hexs(rb(rng, 24)), hexs(rb(rng, 32))))
    # long messages: past the points where a byte of a big-endian / little-endian block counter carries (256 blocks of 16 or 64 bytes),
    # and long associated data likewise (the statement quantifies over all lengths; the quick tier takes the first carry of every cipher)
    longs = [4063, 4064, 4065, 4095, 4096, 4097, 4111, 4112, 4113, 4200, 8191, 8192, 8193, 16383, 16384, 16385, 16500] + ([65535, 65536, 65537, 70001] if full else [])
    for n in longs:
        m = rb(rng, n)
        for (name, kb, nb) in AEADS:
            L.append("aead.%s.enc %s %s %s %s" % (name, hexs(m), hexs(rb(rng, rng.choice([0, 13, 16]))), hexs(rb(rng, nb)), hexs(rb(rng, kb))))
        for v in ("xsalsa", "xchacha"):
            L.append("secretbox.%s.enc %s %s %s" % (v, hexs(m), hexs(rb(rng, 24)), hexs(rb(rng, 32))))
    for adl in (4095, 4096, 4097, 4112, 8200) + ((16385, 65537) if full else ()):
        for (name, kb, nb) in AEADS:
            L.append("aead.%s.enc %s %s %s %s" % (name, hexs(rb(rng, 33)), hexs(rb(rng, adl)), hexs(rb(rng, nb)), hexs(rb(rng, kb))))
    for n in range(0, 40):
        L.append("secretbox.nacl.box %s %s %s" % (hexs(bytes(n)), hexs(rb(rng, 24)), hexs(rb(rng, 32))))
    # every ad length across the internal block / aggregation boundaries (the property quantifies ad like the message:
    # 0..~2 KiB), with a few message lengths
    adls = list(range(0, 520)) + list(range(520, 2101, 16 if full else 61)) + [671, 672, 673, 895, 896, 897, 1023, 1024, 1025, 2047, 2048, 2049, 2100]
    for adl in sorted(set(adls)):
        for (name, kb, nb) in AEADS:
            if not full and adl > 70 and name in ("chachapoly", "xchachapoly") and adl % 3:
                continue
            L.append("aead.%s.enc %s %s %s %s" % (name, hexs(rb(rng, rng.choice([0, 1, 16, 33, 224, 300]))), hexs(rb(rng, adl)), hexs(rb(rng, nb)), hexs(rb(rng, kb))))
    for _ in range(40 if not full else 300):
        for v in ("xsalsa", "xchacha"):
            L.append("box.beforenm %s %s %s" % (v, hexs(rb(rng, 32)), hexs(rb(rng, 32))))
    # box (easy = detached = afternm, checked in the harness) and sealed boxes in both cipher variants: the ephemeral key of a sealed box comes from a scripted
    # random source, so the whole sealed box is compared with the specification (epk || box(m, BLAKE2b-192(epk || pk), pk, esk)); the model's box is then opened
    blens = list(range(0, 80)) + [95, 96, 97, 127, 128, 129, 255, 256, 257, 1000] + ([2100, 4097] if full else [])
    for n in blens:
        for v in ("xsalsa", "xchacha"):
            L.append("box.easy %s %s %s %s %s" % (v, hexs(rb(rng, n)) if n else "-", hexs(rb(rng, 24)), hexs(rb(rng, 32)), hexs(rb(rng, 32))))
            L.append("rng.gen %s %s %s %s" % ("seal" if v == "xsalsa" else "sealx", hexs(rb(rng, 32)), hexs(rb(rng, n)) if n else "-", hexs(rb(rng, 32))))
    for pk in ["00" * 32, "01" + "00" * 31, "e0eb7a7c3b41b8ae1656e3faf19fc46ada098deb9c32b1fd866205165f49b800", "ecffffffffffffffffffffffffffffffffffffffffffffffffffffffffffff7f"]:
        L.append("box.beforenm xsalsa %s %s" % (pk, hexs(rb(rng, 32))))
    return L
