"""C11 — secret data never influences branches or memory addresses (DESIGN §3.11)."""
import json, os, re, subprocess, time
import vcore

ID = "C11"
LEVEL = "proof"
_T = []   # filled from Properties/C11.lean when present
def _names():
    p = os.path.join(vcore.LEAN, "SodiumModel", "Properties", "C11.lean")
    if not os.path.exists(p):
        return []
    return re.findall(r"^theorem\s+([A-Za-z0-9_']+)", vcore.strip_comments(open(p).read()), re.M)
THEOREMS = ["Sodium.C11." + n for n in _names()]
IMPORTS = ["SodiumModel.Properties.C11"] if THEOREMS else ["SodiumModel.Model.Utils"]
RULE = ("every listed operation with its secret operands tainted (memcheck undefined-value tracking: one execution covers all secret values along its path): comparison helpers and verify_16/32/64 "
        "(lengths 0..130 incl. equal / differing in first / last byte), big-number helpers, unpad (valid and invalid paddings, block sizes 1..64), bin2hex / bin2base64 (4 variants), X25519 (both entry points), "
        "Edwards / Ristretto scalar multiplication (6 entry points), Ed25519 key generation / signing (detached, combined, multi-part) / sk_to_curve25519, scalar arithmetic (9 ops), kx / box beforenm, "
        "all stream ciphers (lengths across 64 / 256 / 512-byte batch boundaries), SHA-2 / HMAC / BLAKE2b / SipHash / Poly1305 incl. streaming and verify, KDFs, all 6 AEADs encrypt and decrypt (valid and tampered), "
        "secretbox / secretstream; on the native build with AVX2, SSSE3 and SSE2-only dispatch and on the portable build")
ASSUMPTIONS = ["the Lean theorems are non-interference theorems about leakage-instrumented MODELS of the helpers / selection loops / ladder skeleton (trace = branch decisions + memory indices); they are tied to the code by "
               "(a) functional equality with the models validated by C14 / C15 / C16 and (b) this taint run reporting no secret-dependent branch or address in the corresponding functions",
               "memcheck tracks definedness at bit level through the compiled code; it does not see micro-architectural effects (variable-latency instructions) and cannot execute AVX-512 code (masked off)",
               "branches on PUBLIC results inside the listed wrapper frames are allowed (ALLOW table): a new secret-dependent branch placed in the body of one of those small wrappers themselves would be attributed to the same frame",
               "field arithmetic, block functions and hardware-AES code are covered by the taint run only (no Lean leakage model)"]

# top-frame function -> why a report there is a dependency on an explicitly PUBLIC result
ALLOW = {
    "_crypto_scalarmult_ed25519": "identity-result error: returns -1 when the product is the identity (property: identity-result errors are public)",
    "_crypto_scalarmult_ed25519_base": "identity-result error",
    "crypto_scalarmult_ristretto255": "identity-result error",
    "crypto_scalarmult_ristretto255_base": "identity-result error",
    "crypto_kx_client_session_keys": "branches on the status of crypto_scalarmult (failure status is public)",
    "crypto_kx_server_session_keys": "branches on the status of crypto_scalarmult (failure status is public)",
    "crypto_box_curve25519xsalsa20poly1305_beforenm": "branches on the status of crypto_scalarmult",
    "crypto_box_curve25519xchacha20poly1305_beforenm": "branches on the status of crypto_scalarmult",
}
ALLOW_RE = [
    (re.compile(r"^crypto_aead_[a-z0-9_]+_decrypt(_detached)?(_afternm)?$"), "branches on the tag verification status (success / failure is public)"),
    (re.compile(r"^(aegis128l|aegis256)_(soft|aesni|armcrypto)_(decrypt_detached|decrypt_detached_unauthenticated)$|^decrypt_detached$"), "branches on the tag verification status"),
    (re.compile(r"^crypto_secretbox(_xchacha20poly1305)?_open_(detached|easy)$"), "branches on the tag verification status"),
    (re.compile(r"^crypto_secretstream_xchacha20poly1305_pull$"), "branches on the tag verification status"),
]


# ---------------------------------------------------------------- Tie B: MiniC translation of the leaf functions (tools/c2minic.py)
MINIC_CORE = ["MiniC.eval_ni", "MiniC.exec_ni", "MiniC.soundness", "MiniC.soundness_ctx", "MiniC.exec_fuel_mono"]
_MINIC_PROPS = os.path.join(vcore.LEAN, "SodiumModel", "Properties", "C11MiniC.lean")
MINIC_PROPS = ["Sodium.C11MiniC." + n for n in re.findall(r"^theorem\s+([A-Za-z0-9_']+)", vcore.strip_comments(open(_MINIC_PROPS).read()), re.M)] if os.path.exists(_MINIC_PROPS) else []
THEOREMS = THEOREMS + MINIC_CORE + MINIC_PROPS
IMPORTS = IMPORTS + ["SodiumModel.MiniC.Soundness", "SodiumModel.MiniC.SoundnessCtx", "SodiumModel.Properties.C11MiniC"]

SEARCH_TMPL = """import Generated.MiniCFuns
import SodiumModel.MiniC.Semantics
import SodiumModel.MiniC.CtCheck
open MiniC Sodium.Generated.MiniC
/- search for two inputs of `%(fn)s` that agree on everything labelled Public and give different leakage traces -/
def lcg (s : Nat) : Nat := (s * 6364136223846793005 + 1442695040888963407) %% 2 ^ 64
def rnd (s : Nat) (k : Nat) : Nat := (lcg (s + 7919 * k)) / 2 ^ 33
def mkArr (seed mode len : Nat) : List Int :=
  (List.range len).map fun i =>
    if mode == 0 then 0 else if mode == 1 then 255 else if mode == 2 then (if i + 1 == len then 1 else 0)
    else if mode == 3 then (if i == 0 then 128 else 0) else Int.ofNat (rnd seed i %% 256)
def specOf : Spec := ((%(specs)s).lookup "%(fn)s").getD ⟨[], [], false⟩
def inputs (pubSeed secSeed mode : Nat) : List Int × List (List Int) :=
  let fn := fn_%(fn)s
  let n := rnd pubSeed 1000 %% 40
  let vals := fn.params.zipIdx.map fun (p, i) =>
    if specOf.pubVars.contains p then (if i %% 2 == 0 then Int.ofNat n else Int.ofNat (rnd pubSeed (2000 + i) %% 4 + 1))
    else (if mode == 0 then 0 else if mode == 1 then 1 else Int.ofNat (rnd secSeed (3000 + i) %% 256))
  let arrs := fn.arrParams.zipIdx.map fun (a, i) =>
    if specOf.pubArrs.contains a then mkArr (pubSeed + i) 4 48 else mkArr (secSeed + 31 * i) (if mode < 4 then (mode + i) %% 5 else 4) 48
  (vals, arrs)
def run (pubSeed secSeed mode : Nat) : Res :=
  let i := inputs pubSeed secSeed mode
  runFun prog_%(fn)s 200000 fn_%(fn)s i.1 i.2
def firstDiff : List Ev → List Ev → Nat → Option (Nat × String × String)
  | a :: as, b :: bs, k => if a = b then firstDiff as bs (k + 1) else some (k, reprStr a, reprStr b)
  | [], b :: _, k => some (k, "(end of trace)", reprStr b)
  | a :: _, [], k => some (k, reprStr a, "(end of trace)")
  | [], [], _ => none
def main : IO Unit := do
  for t in List.range 400 do
    let pub := 1000 + t / 8
    let r1 := run pub (2 * t + 1) (t %% 6)
    let r2 := run pub (2 * t + 2) ((t / 6) %% 6)
    match firstDiff r1.tr r2.tr 0 with
    | some (k, a, b) =>
      let i1 := inputs pub (2 * t + 1) (t %% 6)
      let i2 := inputs pub (2 * t + 2) ((t / 6) %% 6)
      IO.println s!"WITNESS function=%(fn)s params={fn_%(fn)s.params} arrays={fn_%(fn)s.arrParams} | run1: scalars={i1.1} arrays={i1.2.map (·.take 12)} | run2: scalars={i2.1} arrays={i2.2.map (·.take 12)} | first differing trace event #{k}: run1={a} run2={b} (trace lengths {r1.tr.length} / {r2.tr.length})"
      return
    | none => pure ()
  IO.println "NO-WITNESS"
"""


def _minic_search(ctx, fn):
    """the checker rejected the regenerated function: look for a concrete pair of inputs, equal on everything Public, whose leakage traces under the
    MiniC semantics differ (a source-level witness of the secret-dependent branch / address)"""
    f = os.path.join(ctx.scratch, "MiniCSearch_%s.lean" % fn)
    open(f, "w").write(SEARCH_TMPL % {"fn": fn, "specs": "specs_" + fn})
    # specs_<fn> lives in MiniCObligations (which no longer compiles): restate it from the generated text
    obl = open(os.path.join(vcore.LEAN, "Generated", "MiniCObligations.lean")).read()
    m = re.search(r"^def specs_%s : Ctx := (.*)$" % re.escape(fn), obl, re.M)
    if not m:
        return None
    src = open(f).read().replace("(specs_%s)" % fn, "(%s : Ctx)" % m.group(1))
    open(f, "w").write(src)
    subprocess.run(["lake", "build", "+Generated.MiniCFuns"], cwd=vcore.LEAN, capture_output=True, text=True)
    p = subprocess.run(["lake", "env", "lean", "--run", f], cwd=vcore.LEAN, capture_output=True, text=True, timeout=900)
    for ln in (p.stdout + p.stderr).split("\n"):
        if ln.startswith("WITNESS"):
            return ln
    return None


def tie_b(ctx):
    """Regenerate Generated/MiniCFuns.lean + MiniCObligations.lean from /repo's current source (clang AST -> MiniC) and let the kernel decide
    `ctCheck … = true` for each function; the instantiated soundness theorem then gives non-interference of the leakage trace of the code as it is now."""
    import fcntl, c2minic
    with open(os.path.join(vcore.LEAN, ".lake-lock"), "w") as lk:
        fcntl.flock(lk, fcntl.LOCK_EX)
        t = time.time()
        r = c2minic.run_tie(vcore.LEAN)
        fns = [x["fn"] for x in r.get("translated", [])]
        # the extended translator reports the fully qualified name of each non-interference corollary: the small helpers keep
        # Sodium.Generated.MiniC.ni_<fn>, the large programs (one program per build configuration, MiniC.soundness_ctx) live in
        # Sodium.Generated.MiniCBig; a function translated from two configurations has two corollaries (ni_<fn>, ni_<fn>_portable)
        ni_names = [x.get("ni") or ("Sodium.Generated.MiniC.ni_" + x["fn"]) for x in r.get("translated", [])]
        ctx.stats["minic_functions_translated"] = ["%s [%s]" % (x["fn"], x["variant"]) for x in r.get("translated", [])]
        ctx.stats["minic_tie_s"] = round(time.time() - t, 1)
        out = []
        if r["status"] == "refused":
            ctx.log("Tie B (MiniC): translator refuses the current source: %s" % r["error"][:300])
            return [("translator", "tools/c2minic.py no longer recognises the source of a constant-time leaf function (outside the MiniC fragment): %s" % r["error"])]
        if r["status"] == "failed":
            for name in r["failed"]:
                fn = re.sub(r"^(ct|ni)_", "", name)
                fn = re.sub(r"^chk_(native|noasm|noti|portable)_", "", fn)      # checkFn obligation of one function of a large program
                w = _minic_search(ctx, fn) if (fn in fns and ("Sodium.Generated.MiniC.ni_" + fn) in ni_names) else None
                msg = ("the constant-time type checker rejects `%s` as translated from the current source (or a concrete example about it no longer evaluates as expected)" % fn)
                if w:
                    msg += "; source-level witness under the MiniC semantics — two inputs equal on everything Public with different leakage traces: " + w
                    ctx.violations_with_input = getattr(ctx, "violations_with_input", 0) + 1
                out.append(("Sodium.Generated.MiniC." + name, msg + "\n" + r["log"][-800:]))
            ctx.log("Tie B (MiniC): %d functions translated, obligations failing: %s" % (len(fns), r["failed"]))
            for n in ni_names:
                ctx.obligations.append({"theorem": n, "axioms": ["(not audited: obligations file does not build)"]})
            ctx.discharged = len(ctx.obligations) - len(out)
            return out
        # all obligations check: audit the axioms of the instantiated non-interference theorems
        names = list(dict.fromkeys(ni_names))
        src = "import Generated.MiniCObligations\n" + "".join("#print axioms %s\n" % n for n in names)
        f = os.path.join(ctx.scratch, "AuditMiniC.lean")
        open(f, "w").write(src)
        p = subprocess.run(["lake", "env", "lean", f], cwd=vcore.LEAN, capture_output=True, text=True)
        o = p.stdout + p.stderr
        for n in names:
            m = re.search(r"'%s' depends on axioms: \[([^\]]*)\]" % re.escape(n), o)
            ax = [a.strip() for a in m.group(1).replace("\n", " ").split(",")] if m else None
            if ax is None and ("'%s' does not depend on any axioms" % n) in o:
                ax = []
            if ax is None or any(a not in vcore.ALLOWED_AXIOMS for a in ax):
                raise vcore.BrokenCheck("axiom audit of %s failed: %s" % (n, o[-800:]))
            ctx.obligations.append({"theorem": n, "axioms": ax})
        ctx.discharged = len(ctx.obligations)
        ctx.log("Tie B (MiniC): %d functions re-translated from the source, ctCheck accepted by the kernel for each, %d non-interference corollaries audited (%.0fs)" % (len(fns), len(names), time.time() - t))
        return []


def configs(tier):
    if tier == "quick":
        # the all-off mask selects the 64-bit portable backends of the native build (poly1305_donna64, reference ChaCha20 / Salsa20 / BLAKE2b, fe51 ref10
        # ladder), which neither the SIMD masks nor the portable build (donna32, 25.5-bit limbs) execute
        return [("native", "avx512f", "plain"), ("native", "avx512f,avx2,avx1", "plain"), ("native", vcore.ALL_OFF, "plain"), ("portable", "", "plain")]
    return [("native", m, "plain") for m in vcore.MASK_CHAIN[1:]] + [("noasm", "avx512f", "plain"), ("noti", "avx512f", "plain"), ("portable", "", "plain")]


def _gen(ctx, tier, rng):
    full = tier == "thorough"
    L = []
    def add(name, ln, a3):
        L.append("ct %s %d %d %d" % (name, ln, a3, rng.randrange(1, 1 << 31)))
    lens = list(range(0, 70)) + [95, 96, 127, 128, 129, 130] if not full else list(range(0, 200))
    # long operands: across page-sized and larger internal thresholds
    lens = lens + [1000, 4095, 4096, 4097, 8191, 8192, 8193, 16385, 70000]
    for n in lens:
        for eq in (0, 1, 2, 3):
            add("memcmp", n, eq); add("compare", n, eq)
        for z in (0, 1, 2):
            add("is_zero", n, z)
        for w in range(6):
            add("arith", n, w)
    for n in (16, 32, 64):
        for eq in (0, 1, 2):
            add("verify", n, eq)
    for n in ([1, 2, 7, 8, 15, 16, 17, 31, 32, 33, 64, 100, 255] if not full else range(1, 260)):
        for bs in (1, 2, 3, 7, 8, 16, 17, 32, 64):
            for _ in range(3):
                add("unpad", n, bs)
    for n in (list(range(0, 50)) if not full else list(range(0, 200))) + [4096, 4097, 10000, 70000]:
        add("bin2hex", n, 0)
        for v in (1, 3, 5, 7):
            add("bin2b64", n, v)
    reps = 3 if not full else 12
    for _ in range(reps):
        add("x25519", 0, 0); add("x25519", 1, 0)
        for w in range(6):
            add("edmult", w, 0)
        for w in range(5):
            add("sign", rng.choice([0, 1, 31, 32, 33, 64, 100, 129, 300]), w)
        for w in range(9):
            add("scalar", w, 0)
        for w in range(4):
            add("kx", w, 0)
    slens = [0, 1, 15, 16, 17, 63, 64, 65, 127, 128, 129, 191, 192, 255, 256, 257, 320, 511, 512, 513, 575, 576, 577, 1023, 1024, 1025, 1100, 4096, 4097, 8193, 70000] if not full else list(range(0, 1200, 1))
    for n in slens:
        for w in range(11):
            add("stream", n, w)
    hlens = [0, 1, 15, 16, 17, 31, 32, 33, 55, 56, 57, 63, 64, 65, 111, 112, 113, 119, 120, 127, 128, 129, 255, 256, 257, 300, 4096, 4097, 20000] if not full else list(range(0, 400)) + [4096, 4097, 20000, 70000]
    for n in hlens:
        for w in range(18):
            add("hash", n, w)
    alens = [0, 1, 15, 16, 17, 31, 32, 33, 63, 64, 65, 127, 128, 129, 255, 256, 257, 300, 511, 512, 513, 600, 4096, 4097, 20000] if not full else list(range(0, 700)) + [4096, 4097, 20000, 70000]
    for n in alens:
        for w in range(12):
            add("aead", n, w)
            if w % 2:
                add("aead", n, w)
        for w in range(4):
            add("box", n, w)
    return L


def parse_log(text):
    """-> list of (opline, kind, [frames]) for every memcheck error"""
    errs, op, cur = [], None, None
    for ln in text.split("\n"):
        m = re.match(r"^\*\*\d+\*\* @op \d+ (.*)$", ln)
        if m:
            op = m.group(1).strip(); cur = None
            continue
        m = re.match(r"^==\d+== (Conditional jump or move depends on uninitialised value\(s\)|Use of uninitialised value of size \d+|Syscall param .* uninitialised.*|Invalid (read|write) of size \d+.*|Process terminating.*)$", ln)
        if m:
            cur = (op, m.group(1), [])
            errs.append(cur)
            continue
        m = re.match(r"^==\d+==\s+(at|by) 0x[0-9A-Fa-f]+: (\S+)", ln)
        if m and cur is not None:
            cur[2].append(m.group(2))
            continue
        if re.match(r"^==\d+==\s*$", ln):
            cur = None
    return errs


def allowed(frames):
    if not frames:
        return None
    top = frames[0]
    if top in ALLOW:
        return ALLOW[top]
    for rx, why in ALLOW_RE:
        if rx.match(top):
            return why
    return None


def run_vg(ctx, exe, lines, mask):
    log = os.path.join(ctx.scratch, "vg-%d.log" % os.getpid())
    e = dict(os.environ); e["SODIUM_VERIF_CPU_DISABLE"] = mask
    p = subprocess.run(["valgrind", "-q", "--log-file=" + log, "--error-limit=no", "--leak-check=no", "--num-callers=16", "--undef-value-errors=yes", exe],
                       input="\n".join(lines) + "\n", capture_output=True, text=True, env=e, cwd=ctx.scratch, timeout=7200)
    out = p.stdout.split("\n")
    if out and out[-1] == "":
        out.pop()
    text = open(log).read() if os.path.exists(log) else ""
    return p.returncode, out, text


def extra(ctx, rng):
    if subprocess.run(["which", "valgrind"], capture_output=True).returncode != 0:
        raise vcore.BrokenCheck("valgrind not found")
    lines = _gen(ctx, ctx.tier, rng)
    for ln in lines:
        vcore.note_case(ctx, ln)
    hist = {}
    for ln in lines:
        k = ln.split(" ")[1]
        hist[k] = hist.get(k, 0) + 1
    ctx.stats["ops_by_family"] = hist
    ctx.samples = [{"op": l} for l in lines[:3] + lines[len(lines) // 2:len(lines) // 2 + 3]]
    allowed_hits = {}
    for cfg in configs(ctx.tier):
        exe = vcore.build_hx(ctx, cfg[0], cfg[2])
        fl, _ = vcore.run_impl(ctx, exe, ["rt.flags"], cfg[1])
        hw_aes = bool(fl) and "aesni=1" in fl[0] and "avx=1" in fl[0]
        all_lines = lines
        if not hw_aes:      # AEGIS falls back to the table-based software AES, which the property does not list (hardware-AES AEAD only)
            lines = [l for l in all_lines if not (l.startswith("ct aead ") and int(l.split(" ")[3]) >= 8)]
            ctx.stats["aegis_soft_skipped_" + (cfg[1] or cfg[0])] = len(all_lines) - len(lines)
        ref, crashed = vcore.run_impl(ctx, exe, lines, cfg[1])
        if crashed:
            raise vcore.BrokenCheck("reference (untainted) run failed: %s" % crashed)
        t = time.time()
        rc, out, log = run_vg(ctx, exe, lines, cfg[1])
        ctx.evaluations += len(lines)
        ctx.configs_run.append({"variant": cfg[0], "mask": cfg[1] or "none", "flavour": "valgrind-memcheck taint", "ops": len(lines), "wall_s": round(time.time() - t, 1), "runtime_flags": fl[0] if fl else None})
        if rc != 0 or len(out) != len(lines):
            vcore.report(ctx, "crash", {"what": "the tainted run crashed or was truncated", "variant": cfg[0], "mask": cfg[1], "rc": rc, "lines_out": len(out), "log_tail": log[-3000:],
                                        "op": lines[len(out)] if len(out) < len(lines) else None})
            continue
        nrep = 0
        for k, (a, b) in enumerate(zip(out, ref)):
            if a != b and nrep < 2:
                nrep += 1
                vcore.report(ctx, "taint-changes-result", {"what": "public output differs between the tainted and the plain run (an undefined value reached a public result without declassification?)",
                                                         "op": lines[k], "tainted": a, "plain": b, "variant": cfg[0], "mask": cfg[1]}, no_input=True)
        seen = set()
        for (op, kind, frames) in parse_log(log):
            why = allowed(frames)
            lib = [f for f in frames if not f.startswith(("ct_", "op_ct", "hx_", "main"))]
            if why is not None:
                allowed_hits[frames[0]] = allowed_hits.get(frames[0], 0) + 1
                continue
            key = (kind, tuple(lib[:3]))
            if key in seen:
                continue
            seen.add(key)
            if len(seen) <= 4:
                vcore.report(ctx, "secret-dependent", {"what": "%s — in %s" % (kind, lib[0] if lib else "?"), "op": op, "frames": frames, "variant": cfg[0], "mask": cfg[1],
                                                      "note": "the secret operands of this op are tainted; memcheck reports a branch / address computed from them"})
        lines = all_lines
        ctx.log("config %s/%s: %d ops under memcheck in %.0fs, %d distinct disallowed reports" % (cfg[0], cfg[1] or "none", len(lines), time.time() - t, len(seen)))
    ctx.stats["allowed_public_result_branches"] = allowed_hits


def replay(ctx, r):
    print(json.dumps(r, indent=1)[:3000])
    if not r.get("op"):
        return 1
    exe = vcore.build_hx(ctx, r.get("variant", "native"), "plain")
    rc, out, log = run_vg(ctx, exe, [r["op"]], r.get("mask", ""))
    bad = [e for e in parse_log(log) if allowed(e[2]) is None]
    print(log[-2500:])
    if bad or rc != 0:
        print("VIOLATION property=C11 replay=(this file)")
        return 1
    print("no disallowed report on the current tree")
    return 0
