#!/usr/bin/env python3
"""python3 tools/check.py <Cxx> [--tier quick|thorough] [--replay path] | --setup"""
import argparse, importlib, json, os, random, sys, time, traceback
sys.path.insert(0, os.path.dirname(os.path.abspath(__file__)))
import vcore
from vcore import Ctx, BrokenCheck


def bisect_enum(ctx, mod, line, exe, cfg):
    """line = 'enum.xxx p... lo hi' with differing digests: find the first differing case."""
    parts = line.split(" ")
    lo, hi = int(parts[-2]), int(parts[-1])
    head = parts[:-2]
    while hi - lo > 1:
        mid = (lo + hi) // 2
        l1 = " ".join(head + [str(lo), str(mid)])
        m = vcore.run_model(ctx, [l1])[0]
        i, _ = vcore.run_impl(ctx, exe, [l1], cfg[1], vcore.cfg_env(cfg))
        if not i or i[0] != m:
            hi = mid
        else:
            lo = mid
    return lo


def run_standard(mod, ctx):
    ok, out = vcore.lean_build(ctx)
    if not ok:
        raise BrokenCheck("lake build failed:\n" + out[-3000:])
    ax = vcore.audit(ctx, mod.THEOREMS, mod.IMPORTS)
    ctx.obligations = [{"theorem": t, "axioms": ax[t]} for t in mod.THEOREMS]
    ctx.discharged = len(ctx.obligations)
    ctx.log("lean build ok, %d theorems audited" % len(ax))
    if ctx.tier == "thorough":      # independent re-check of the compiled property modules (replays every declaration through the kernel from the .olean files)
        import subprocess
        for m in mod.IMPORTS:
            p = subprocess.run(["lake", "env", "leanchecker", m], cwd=vcore.LEAN, capture_output=True, text=True, timeout=3600)
            if p.returncode != 0:
                raise BrokenCheck("leanchecker rejects %s: %s" % (m, (p.stdout + p.stderr)[-800:]))
        ctx.stats["leanchecker_modules"] = list(mod.IMPORTS)
        ctx.log("leanchecker: %d property modules re-checked from their .olean files" % len(mod.IMPORTS))
    tieb = vcore.tie_b_tables(ctx, mod.TABLES) if getattr(mod, "TABLES", None) else []
    if getattr(mod, "TABLES", None):
        ctx.log("Tie B: %d table obligations regenerated from the source, %d failed" % (len(mod.TABLES), len(tieb)))
    if getattr(mod, "TIEB_SC", False):
        t_sc = vcore.tie_b_sc(ctx)
        ctx.log("Tie B: scalar limb code re-transcribed from the source, %s" % ("proofs hold" if not t_sc else "PROOFS BROKEN"))
        tieb = tieb + t_sc
    if getattr(mod, "FINGERPRINTS", None):
        import fingerprint
        ch = fingerprint.changed(vcore.REPO, mod.FINGERPRINTS)
        ctx.stats["limb_code_fingerprints_checked"] = len([k for k in json.load(open(fingerprint.PINS))])
        for (k, old, new) in ch:
            tieb = tieb + [("transcription of " + k, "the body of this function differs from the text its Lean model was transcribed from (pinned %s, now %s): "
                            "the limb-arithmetic theorems no longer cover the code that exists; re-transcribe and re-prove, then update tools/fingerprints.json" % (old, new))]
        ctx.log("Tie B: limb-code source fingerprints, %d changed" % len(ch))
    if hasattr(mod, "tie_b"):      # property-specific translator tie (e.g. C11: MiniC functions regenerated from the source)
        tieb = tieb + mod.tie_b(ctx)
    rng = random.Random(ctx.seed)
    cfgs = mod.configs(ctx.tier)
    if hasattr(mod, "gen"):
        lines = mod.gen(ctx, ctx.tier, rng)
        if hasattr(mod, "post_model"):
            lines = mod.post_model(ctx, lines, lambda q: vcore.run_model(ctx, q))
        for ln in lines:
            vcore.note_case(ctx, ln)
        ctx.samples = lines[:3] + lines[len(lines) // 2: len(lines) // 2 + 3] + lines[-2:]
        t = time.time()
        if hasattr(mod, "MODEL_OUT"):       # generator already ran the model interactively (stateful histories)
            model_out = mod.MODEL_OUT
        elif hasattr(mod, "MODEL_RUN"):     # module-specific way of running the model (e.g. split over processes)
            model_out = mod.MODEL_RUN(ctx, lines)
        else:
            model_out = vcore.run_model(ctx, lines)
        ctx.log("model ran %d ops in %.1fs" % (len(lines), time.time() - t))
        kinds = {}
        for l, m in zip(lines, model_out):
            k = l.split(" ")[0] + " -> " + (m.split(" ")[0] if (m[:1] == "-" and len(m) > 1) or m.split(" ")[0] in ("0", "1", "misuse", "bad-args", "bad-op", "MODEL-DISAGREE") else "value")
            kinds[k] = kinds.get(k, 0) + 1
        ctx.stats["op_outcome_histogram"] = kinds
        if any(m in ("bad-op", "bad-args", "MODEL-DISAGREE") for m in model_out):
            bad = [l for l, m in zip(lines, model_out) if m in ("bad-op", "bad-args", "MODEL-DISAGREE")][:3]
            raise BrokenCheck("generator produced ops the model driver rejects: %s" % bad)
        ctx.samples = [{"op": l[:300], "model": model_out[lines.index(l)][:200]} for l in ctx.samples]
        for cfg in cfgs:
            exe = vcore.build_hx(ctx, cfg[0], cfg[2])
            t = time.time()
            impl_out, crashed = vcore.run_impl(ctx, exe, lines, cfg[1], vcore.cfg_env(cfg))
            fl, _ = vcore.run_impl(ctx, exe, ["rt.flags"], cfg[1])
            ctx.configs_run.append({"variant": cfg[0], "mask": cfg[1] or "none", "flavour": cfg[2], "env": vcore.cfg_env(cfg) or {}, "ops": len(lines),
                                    "wall_s": round(time.time() - t, 2), "runtime_flags": fl[0] if fl else None})
            # enum lines: refine to the first differing case before reporting
            lines2, m2, i2 = list(lines), list(model_out), list(impl_out)
            for k, ln in enumerate(lines):
                if ln.startswith("enum.") and k < len(impl_out) and impl_out[k] != model_out[k] and hasattr(mod, "enum_case"):
                    idx = bisect_enum(ctx, mod, ln, exe, cfg)
                    one = mod.enum_case(ln, idx)
                    lines2[k] = one
                    m2[k] = vcore.run_model(ctx, [one])[0]
                    o, _ = vcore.run_impl(ctx, exe, [one], cfg[1], vcore.cfg_env(cfg))
                    i2[k] = o[0] if o else None
            vcore.compare_streams(ctx, mod, lines2, m2, i2, cfg, crashed)
            ctx.log("config %s/%s/%s%s: %d ops compared, violations so far %d" % (cfg[0], cfg[1] or "none", cfg[2], vcore.cfg_env_label(cfg), len(lines), len(ctx.violations)))
    if hasattr(mod, "extra"):
        mod.extra(ctx, rng)
    for (name, log) in tieb:
        # the table in the source is no longer the table the theorems are about; the correspondence above was the search for a concrete failing input
        vcore.report(ctx, "tieB", {"theorem": name if name.startswith(("Sodium.", "transcription")) or name == "translator" else "Sodium.Generated." + name, "what": "a model part regenerated from /repo's current source no longer satisfies its kernel-checked obligation",
                                         "log": log[-1200:], "concrete_inputs": "see the other replay files of this run" if ctx.violations else None}, no_input=not ctx.violations)
    vcore.write_evidence(ctx, mod.LEVEL, mod.RULE, getattr(mod, "evidence_extra", lambda c: None)(ctx),
                         getattr(mod, "ASSUMPTIONS", []))


def do_replay(mod, ctx, path):
    r = json.load(open(path))
    ok, out = vcore.lean_build(ctx)
    if not ok:
        raise BrokenCheck("lake build failed")
    if hasattr(mod, "replay"):
        return mod.replay(ctx, r)
    line = r["op"]
    cfg = (r.get("variant", "native"), r.get("mask", ""), r.get("flavour", "plain"))
    m = vcore.run_model(ctx, [line])[0]
    exe = vcore.build_hx(ctx, cfg[0], cfg[2])
    i, crashed = vcore.run_impl(ctx, exe, [line], cfg[1], r.get("env") or None)
    print("op    :", line)
    print("model :", m)
    print("impl  :", i[0] if i else crashed)
    if not i or i[0] != m:
        print("VIOLATION property=%s replay=%s" % (ctx.prop, path))
        return 1
    print("no disagreement on the current tree")
    return 0


def main():
    ap = argparse.ArgumentParser()
    ap.add_argument("prop", nargs="?")
    ap.add_argument("--tier", default=os.environ.get("VERIF_TIER", "quick"))
    ap.add_argument("--replay")
    ap.add_argument("--setup", action="store_true")
    a = ap.parse_args()
    seed = int(os.environ.get("VERIF_SEED", "1"))
    if a.setup:
        ctx = Ctx("setup", "quick", seed)
        try:
            ok, out = vcore.lean_build(ctx)
            print(out[-2000:])
            if not ok:
                return 2
            vcore.build_hx(ctx, "native")
            print("setup ok")
            return 0
        finally:
            ctx.cleanup()
    mod = importlib.import_module("props." + a.prop.lower())
    ctx = Ctx(a.prop, a.tier, seed)
    try:
        if a.replay:
            return do_replay(mod, ctx, a.replay)
        run_standard(mod, ctx)
        ctx.log("done: %d evaluations, %d violations" % (ctx.evaluations, len(ctx.violations)))
        return 1 if ctx.violations else 0
    except BrokenCheck as e:
        print("BROKEN-CHECK property=%s: %s" % (a.prop, e), flush=True)
        return 2
    except Exception:
        traceback.print_exc()
        print("BROKEN-CHECK property=%s: internal error" % a.prop, flush=True)
        return 2
    finally:
        ctx.cleanup()


if __name__ == "__main__":
    sys.exit(main())
