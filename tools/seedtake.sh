#!/bin/bash
# usage: tools/seedtake.sh <worktree> <seeded-id>   — copy a sub-agent's deliverables into seeded/<id>/ and confirm them (removes the worktree)
wt=$1; id=$2; d=/verif/seeded/$id
mkdir -p $d && cp $wt/patch.diff $wt/demo.c $wt/meta.json $d/ || exit 1
git -C $wt diff -- src > $d/patch.diff
/verif/tools/seedconfirm.sh $wt seeded/$id
