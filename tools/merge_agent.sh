#!/bin/bash
# usage: tools/merge_agent.sh <agent work dir> <file relative to lean/>...
# New files are copied; files that exist are 3-way merged (base = the lean/ tree the agent copied, /var/tmp/mergebase/lean).
src=$1; shift
for f in "$@"; do
  if [ "$f" = SodiumModel.lean ]; then   # import list: union of lines, order of first appearance
    cat /verif/lean/$f $src/$f | awk '!seen[$0]++' > /verif/lean/$f.new && mv /verif/lean/$f.new /verif/lean/$f; echo "union $f"
  elif [ ! -e /verif/lean/$f ]; then mkdir -p $(dirname /verif/lean/$f); cp $src/$f /verif/lean/$f; echo "new   $f";
  elif cmp -s $src/$f /verif/lean/$f; then echo "same  $f";
  else
    base=${MERGEBASE:-/var/tmp/mergebase}/lean/$f; [ -e $base ] || base=/dev/null
    if git merge-file -q /verif/lean/$f $base $src/$f; then echo "merged $f"; else echo "CONFLICT $f"; fi
  fi
done
