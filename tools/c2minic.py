#!/usr/bin/env python3
"""Tie B for C11 (constant time): translate, from /repo's CURRENT source, the bodies of libsodium's
constant-time leaf helpers into the deep embedding `MiniC` (lean/SodiumModel/MiniC/Syntax.lean) and emit

  lean/Generated/MiniCFuns.lean         def fn_<name> : MiniC.Fun := ...     (one per translated function)
                                        def prog_<name> : MiniC.Program      (function + transitive callees)
  lean/Generated/MiniCObligations.lean  theorem ct_<name> : ctCheck prog_<name> "<name>" specs_<name> = true := by decide +kernel
                                        theorem ni_<name> := soundness ct_<name> rfl rfl

The input is clang's JSON AST (`clang-14 -Xclang -ast-dump=json -Xclang -ast-dump-filter=<fn> -fsyntax-only`),
in which every implicit conversion is an explicit cast node.  Anything outside the MiniC fragment makes the
translator REFUSE (exit status 2, message naming the construct and the source line).

Normalisations performed here (trusted; they are also listed in the header of the generated file):
  * `x op= e`            ->  x = (T)((CT) x op e)   with T, CT as in clang's CompoundAssignOperator
  * `x++ x-- ++x --x`     ->  x = x +/- 1 (in the type of x); inside an expression statement the update is
                             hoisted after (postfix) / before (prefix) the statement; refused in conditions,
                             under && || ?:, or when x occurs a second time in the same full expression
  * `for (i; c; s) b`     ->  i; while (c) { b; s }     (`continue` is refused)
  * pointer locals assigned exactly once from `&a[e]`, `a + e`, `a`, `(T *) a` become an integer offset
    into the array `a` (pure aliases disappear); `*(p - i)`, `p[i]`, `*p` become loads/stores of `a`
  * a call in expression position is hoisted into a call statement with a fresh result variable
  * `p == NULL` / `p != NULL` for a pointer PARAMETER p reads the pseudo-parameter `p__isnull`
  * calls of `noreturn` functions (sodium_misuse, __assert_fail) -> abort; `(void) e` of a variable,
    `(void) sizeof …`, empty statements -> skip; glibc's assert statement-expression is unfolded
  * `return p;` of a pointer -> `ret 0` (addresses are public and not modelled)
  * reads of file-scope scalar variables read a variable of that name (0 unless assigned: static storage)
  * `volatile`, `const`, `static`, `inline` are ignored
"""
import json, os, re, subprocess, sys

HERE = os.path.dirname(os.path.abspath(__file__))
for cand in (os.path.join(HERE, "..", "harness"), "/verif/harness"):
    if os.path.exists(os.path.join(cand, "build_sodium.py")):
        sys.path.insert(0, cand)
        break
import build_sodium

SRC = build_sodium.SRC


class Refuse(Exception):
    pass


_PIN = os.path.join(HERE, "minic_variants.json")
PINNED_VARIANTS = json.load(open(_PIN)) if os.path.exists(_PIN) else {}


# ------------------------------------------------------------------------------------------------
# TARGET TABLE.  Labels follow the property text: SECRET = compared buffers, keys, plaintext, the buffer
# being padded / unpadded / encoded, scalars (and everything derived from them: outputs, results);
# PUBLIC = lengths, block sizes, variant flags, output capacity, pointer null-ness.
#   pub   : public scalar parameters         pubarr : array parameters whose CONTENTS are public
#   ret   : True if the returned value is public
#   asm   : True if the native build compiles an inline-asm / intrinsics fast path that MiniC cannot express;
#           then only the portable C path is translated (and the header says so)
# ------------------------------------------------------------------------------------------------
UTILS, CODECS, VERIFY = "sodium/utils.c", "sodium/codecs.c", "crypto_verify/verify.c"
ED, FE51 = "crypto_core/ed25519/ref10/ed25519_ref10.c", "include/sodium/private/ed25519_ref10_fe_51.h"
TARGETS = [
    dict(file=UTILS, fn="sodium_memcmp", pub=["len"], pubarr=[], ret=False),
    dict(file=UTILS, fn="sodium_is_zero", pub=["nlen"], pubarr=[], ret=False),
    dict(file=UTILS, fn="sodium_compare", pub=["len"], pubarr=[], ret=False),
    dict(file=UTILS, fn="sodium_increment", pub=["nlen"], pubarr=[], ret=True, asm=True),
    dict(file=UTILS, fn="sodium_add", pub=["len"], pubarr=[], ret=True, asm=True),
    dict(file=UTILS, fn="sodium_sub", pub=["len"], pubarr=[], ret=True, asm=True),
    dict(file=UTILS, fn="sodium_pad", pub=["unpadded_buflen", "blocksize", "max_buflen", "padded_buflen_p__isnull"],
         pubarr=["padded_buflen_p"], ret=True),
    dict(file=UTILS, fn="sodium_unpad", pub=["padded_buflen", "blocksize"], pubarr=[], ret=False),
    dict(file=CODECS, fn="sodium_bin2hex", pub=["hex_maxlen", "bin_len"], pubarr=[], ret=True),
    dict(file=CODECS, fn="b64_byte_to_char", pub=[], pubarr=[], ret=False),
    dict(file=CODECS, fn="b64_byte_to_urlsafe_char", pub=[], pubarr=[], ret=False),
    dict(file=CODECS, fn="sodium_bin2base64", pub=["b64_maxlen", "bin_len", "variant"], pubarr=[], ret=True),
    dict(file=CODECS, fn="b64_char_to_byte", pub=[], pubarr=[], ret=False),
    dict(file=CODECS, fn="b64_urlsafe_char_to_byte", pub=[], pubarr=[], ret=False),
    dict(file=VERIFY, fn="crypto_verify_n", pub=["n"], pubarr=[], ret=False, asm=True),
    dict(file=VERIFY, fn="crypto_verify_16", pub=[], pubarr=[], ret=False, asm=True),
    dict(file=VERIFY, fn="crypto_verify_32", pub=[], pubarr=[], ret=False, asm=True),
    dict(file=VERIFY, fn="crypto_verify_64", pub=[], pubarr=[], ret=False, asm=True),
    dict(file=ED, fn="sc25519_is_canonical", pub=[], pubarr=[], ret=False),
    dict(file=ED, fn="ge25519_is_canonical", pub=[], pubarr=[], ret=False),
    dict(file=ED, fn="equal", pub=[], pubarr=[], ret=False, asm=True),
    dict(file=ED, fn="negative", pub=[], pubarr=[], ret=False, asm=True),
    dict(file=ED, fn="fe25519_cmov", pub=[], pubarr=[], ret=True, asm=True),
    dict(file=ED, fn="fe25519_cswap", pub=[], pubarr=[], ret=True, asm=True),
]
# labels of helper functions that are only reached as callees of the targets
CALLEE_SPECS = {
    "_sodium_dummy_symbol_to_prevent_memcmp_lto": dict(pub=["len"], pubarr=[], ret=True),
    "_sodium_dummy_symbol_to_prevent_compare_lto": dict(pub=["len"], pubarr=[], ret=True),
    "sodium_base64_check_variant": dict(pub=["variant"], pubarr=[], ret=True),
}
NORETURN = {"sodium_misuse", "abort", "__assert_fail", "exit"}

# ------------------------------------------------------------------------------------------------
# clang front end
# ------------------------------------------------------------------------------------------------
_AST_CACHE = {}
EXTRA_INC = []      # include directories searched first (mutation self-test of headers: a scratch copy of include/sodium)


def clang_ast(path, fn, variant, rel):
    key = (path, fn, variant)
    if key in _AST_CACHE:
        return _AST_CACHE[key]
    inc = ["-I" + d for d in EXTRA_INC] + ["-I" + os.path.join(SRC, "include"), "-I" + os.path.join(SRC, "include", "sodium"),
           "-I" + os.path.dirname(os.path.join(SRC, rel))]
    cmd = ["clang-14", "-Xclang", "-ast-dump=json", "-Xclang", "-ast-dump-filter=" + fn, "-fsyntax-only", "-w"] + \
        build_sodium.defs_for(variant) + inc + build_sodium.mflags(rel) + ["-x", "c", path]
    p = subprocess.run(cmd, capture_output=True, text=True)
    if p.returncode != 0:
        raise Refuse("clang failed on %s [%s]: %s" % (path, variant, p.stderr[-800:]))
    out, dec, s, i = [], json.JSONDecoder(), p.stdout, 0
    while True:
        while i < len(s) and s[i].isspace():
            i += 1
        if i >= len(s):
            break
        o, i = dec.raw_decode(s, i)
        out.append(o)
    _AST_CACHE[key] = out
    return out


def find_def(path, fn, variant, rel):
    """the FunctionDecl WITH A BODY named exactly fn"""
    for o in clang_ast(path, fn, variant, rel):
        if o.get("kind") == "FunctionDecl" and o.get("name") in (fn, "_sodium_" + fn) and any(c.get("kind") == "CompoundStmt" for c in o.get("inner", [])):
            return o
    return None


def find_global(path, name, variant, rel):
    for o in clang_ast(path, name, variant, rel):
        if o.get("kind") == "VarDecl" and o.get("name") == name:
            return o
    return None


# ------------------------------------------------------------------------------------------------
# types
# ------------------------------------------------------------------------------------------------
INT_TYPES = {
    "unsigned char": ("false", 8), "signed char": ("true", 8), "char": ("true", 8),
    "unsigned short": ("false", 16), "short": ("true", 16),
    "unsigned int": ("false", 32), "int": ("true", 32), "unsigned": ("false", 32),
    "unsigned long": ("false", 64), "long": ("true", 64),
    "unsigned long long": ("false", 64), "long long": ("true", 64),
    "unsigned __int128": ("false", 128), "__int128": ("true", 128),
    # typedef names that clang leaves un-desugared inside pointer / array types (x86-64 SysV, glibc)
    "uint8_t": ("false", 8), "uint16_t": ("false", 16), "uint32_t": ("false", 32), "uint64_t": ("false", 64),
    "int8_t": ("true", 8), "int16_t": ("true", 16), "int32_t": ("true", 32), "int64_t": ("true", 64),
    "size_t": ("false", 64), "uint_fast16_t": ("false", 64), "uint128_t": ("false", 128),
}
TY_NAMES = {("false", 8): ".u8", ("false", 16): ".u16", ("false", 32): ".u32", ("false", 64): ".u64",
            ("true", 8): ".i8", ("true", 16): ".i16", ("true", 32): ".i32", ("true", 64): ".i64"}


def strip_quals(t):
    t = re.sub(r"\b(const|volatile|restrict|__restrict)\b", " ", t)
    return re.sub(r"\s+", " ", t).strip()


def tstr(node):
    t = node.get("type", {})
    return strip_quals(t.get("desugaredQualType") or t.get("qualType") or "")


def is_ptr(t):
    return t.endswith("*")


def is_arr(t):
    return re.search(r"\[\d+\]$", t) is not None


def int_ty(t, where=""):
    t = strip_quals(t)
    if t in INT_TYPES:
        return INT_TYPES[t]
    raise Refuse("unsupported type `%s` %s" % (t, where))


def ty_lean(ty):
    return TY_NAMES.get(ty) or "⟨%s, %d⟩" % ty


def wrap(ty, v):
    s, b = ty
    v %= 1 << b
    if s == "true" and v >= 1 << (b - 1):
        v -= 1 << b
    return v


def elem_ty(t):
    """element type of a pointer or array type string"""
    t = strip_quals(t)
    if is_ptr(t):
        return strip_quals(t[:-1])
    m = re.match(r"^(.*?)\s*\[\d+\]$", t)
    if m:
        return strip_quals(m.group(1))
    raise Refuse("not a pointer/array type: " + t)


def sizeof_t(t):
    t = strip_quals(t)
    if is_ptr(t):
        return 8
    m = re.match(r"^(.*?)\s*\[(\d+)\]$", t)
    if m:
        return sizeof_t(m.group(1)) * int(m.group(2))
    return int_ty(t, "(sizeof)")[1] // 8


# ------------------------------------------------------------------------------------------------
# Lean output of expressions / statements  (python side: nested tuples -> strings)
# ------------------------------------------------------------------------------------------------
def L_lit(v):
    return "(.lit %s)" % (("(%d)" % v) if v < 0 else str(v))


def L_var(x):
    return '(.var "%s")' % x


def L_bin(op, ty, a, b):
    return "(.bin .%s %s %s %s)" % (op, ty_lean(ty), a, b)


def L_un(op, ty, a):
    return "(.un .%s %s %s)" % (op, ty_lean(ty), a)


def L_cast(ty, a):
    return "(.cast %s %s)" % (ty_lean(ty), a)


def L_load(a, i):
    return '(.load "%s" %s)' % (a, i)


BINOPS = {"+": "add", "-": "sub", "*": "mul", "/": "div", "%": "mod", "&": "band", "|": "bor", "^": "bxor",
          "<<": "shl", ">>": "shr", "==": "eq", "!=": "ne", "<": "lt", "<=": "le", ">": "gt", ">=": "ge"}
CMP = {"==", "!=", "<", "<=", ">", ">="}
I32 = ("true", 32)
U64 = ("false", 64)


def line_of(n):
    r = n.get("range", {}).get("begin", {})
    r = r.get("expansionLoc", r)
    return r.get("line")


class FunTr:
    """translation of one function"""

    def __init__(self, unit, decl, name):
        self.unit = unit
        self.decl = decl
        self.name = name         # the name asked for (private/quirks.h renames some functions to _sodium_<name>)
        self.params, self.arr_params = [], []
        self.alias = {}          # pointer local / parameter -> (base array, offset variable or None)
        self.arr_elem = {}       # base array -> element type string (consistency of pointer casts)
        self.ptr_params = set()
        self.ptr_locals = {}     # declared pointer locals without initialiser -> assigned yet?
        self.int_vars = {}       # name -> ty
        self.declared = set()
        self.tmp = 0
        self.callees = []
        self.null_params = []
        self.global_arrays = []  # (name, values)
        self.const_arrays = set()
        self.last_line = None

    def refuse(self, what, node=None):
        ln = line_of(node) if node else None
        if ln:
            self.last_line = ln
        raise Refuse("%s: %s (function %s, near line %s of %s)" % ("unsupported construct", what, self.name, self.last_line, self.unit.rel))

    # ----- declarations
    def declare(self, name, node):
        if name in self.declared:
            self.refuse("second declaration of the name `%s` (shadowing)" % name, node)
        self.declared.add(name)

    def header(self):
        for c in self.decl.get("inner", []):
            if c.get("kind") == "ParmVarDecl":
                nm = c.get("name")
                if nm is None:
                    self.refuse("unnamed parameter", c)
                t = tstr(c)
                self.declare(nm, c)
                if is_ptr(t) or is_arr(t):
                    et = elem_ty(t)
                    if is_ptr(et) or "(" in et:
                        self.refuse("parameter `%s` of type `%s`" % (nm, t), c)
                    self.arr_params.append(nm)
                    self.ptr_params.add(nm)
                    self.alias[nm] = (nm, None)
                    if et != "void":
                        int_ty(et, "(element type of `%s`)" % nm)
                        self.arr_elem[nm] = et
                else:
                    self.int_vars[nm] = int_ty(t, "(parameter `%s`)" % nm)
                    self.params.append(nm)
        rt = strip_quals(self.decl["type"]["qualType"].split("(")[0])
        self.ret_ptr = is_ptr(rt)
        self.ret_void = rt == "void"

    # ----- pointers
    def note_elem(self, base, t, node):
        et = elem_ty(t)
        if et == "void":
            return
        old = self.arr_elem.get(base)
        if old is None:
            self.arr_elem[base] = et
        elif sizeof_t(old) != sizeof_t(et):
            self.refuse("pointer cast changing the element size of `%s` (%s vs %s)" % (base, old, et), node)

    def ptr(self, n, cx):
        """pointer-valued expression -> (base array, offset expr string or None)"""
        k = n.get("kind")
        if k in ("ParenExpr",):
            return self.ptr(n["inner"][0], cx)
        if k in ("ImplicitCastExpr", "CStyleCastExpr"):
            ck = n.get("castKind")
            if ck in ("LValueToRValue", "NoOp", "BitCast", "ArrayToPointerDecay"):
                b, o = self.ptr(n["inner"][0], cx)
                if ck == "BitCast":
                    self.note_elem(b, tstr(n), n)
                return b, o
            self.refuse("pointer cast of kind %s" % ck, n)
        if k == "DeclRefExpr":
            nm = n["referencedDecl"]["name"]
            rk = n["referencedDecl"]["kind"]
            t = tstr(n)
            if nm in self.alias:
                b, o = self.alias[nm]
                return b, (L_var(o) if o else None)
            if nm in self.ptr_locals:
                self.refuse("use of pointer `%s` before its (single, top-level) assignment" % nm, n)
            if is_arr(t) and rk == "VarDecl":
                if nm not in self.declared:      # file-scope array: fetch its initialiser
                    self.import_global_array(nm, n)
                return nm, None
            self.refuse("pointer expression referring to `%s`" % nm, n)
        if k == "UnaryOperator" and n.get("opcode") == "&":
            s = n["inner"][0]
            while s.get("kind") == "ParenExpr":
                s = s["inner"][0]
            if s.get("kind") == "ArraySubscriptExpr":
                b, o = self.ptr(s["inner"][0], cx)
                i = self.idx_u64(s["inner"][1], cx)
                return b, self.add_off(o, "add", i)
            if s.get("kind") == "UnaryOperator" and s.get("opcode") == "*":
                return self.ptr(s["inner"][0], cx)
            self.refuse("address-of `&` applied to something else than an array element", n)
        if k == "BinaryOperator" and n.get("opcode") in ("+", "-"):
            l, r = n["inner"]
            if is_ptr(tstr(l)) or is_arr(tstr(l)):
                b, o = self.ptr(l, cx)
                return b, self.add_off(o, "add" if n["opcode"] == "+" else "sub", self.idx_u64(r, cx))
            if n["opcode"] == "+":
                b, o = self.ptr(r, cx)
                return b, self.add_off(o, "add", self.idx_u64(l, cx))
        self.refuse("pointer expression of kind %s" % k, n)

    def idx_u64(self, n, cx):
        e = self.expr(n, cx)
        t = int_ty(tstr(n), "(index)")
        return e if t == U64 else L_cast(U64, e)

    def add_off(self, o, op, i):
        if o is None:
            if op == "add":
                return i
            return L_bin("sub", U64, L_lit(0), i)
        return L_bin(op, U64, o, i)

    def import_global_array(self, nm, node):
        g = find_global(self.unit.path, nm, self.unit.variant, self.unit.rel)
        if g is None:
            self.refuse("file-scope array `%s` not found" % nm, node)
        t = tstr(g)
        m = re.match(r"^(.*?)\s*\[(\d+)\]$", t)
        if not m or "const" not in (g["type"].get("qualType", "") + g["type"].get("desugaredQualType", "")):
            self.refuse("file-scope array `%s` of type `%s` (only const arrays with a literal initialiser)" % (nm, t), node)
        ety = int_ty(m.group(1), "(element type of `%s`)" % nm)
        vals = self.init_list(g, ety, int(m.group(2)), node)
        self.declare(nm, node)
        self.global_arrays.append((nm, vals))
        self.arr_elem[nm] = strip_quals(m.group(1))

    def init_list(self, vardecl, ety, n, node):
        inner = [c for c in vardecl.get("inner", []) if c.get("kind") not in (None,) and not c.get("kind", "").endswith("Attr")]
        if not inner:
            return [0] * n
        il = inner[0]
        if il.get("kind") != "InitListExpr":
            self.refuse("array initialiser of kind %s" % il.get("kind"), node)
        vals = []
        for c in il.get("inner", []):
            vals.append(wrap(ety, self.const(c, node)))
        if "array_filler" in il:
            vals = []
            for c in il["array_filler"]:
                if c.get("kind") == "ImplicitValueInitExpr":
                    continue
                vals.append(wrap(ety, self.const(c, node)))
        vals += [0] * (n - len(vals))
        return vals

    def const(self, n, node):
        k = n.get("kind")
        if k in ("IntegerLiteral", "CharacterLiteral"):
            return int(n["value"])
        if k in ("ImplicitCastExpr", "CStyleCastExpr", "ParenExpr", "ConstantExpr"):
            if "value" in n and k == "ConstantExpr":
                return int(n["value"])
            v = self.const(n["inner"][0], node)
            if k != "ParenExpr":
                v = wrap(int_ty(tstr(n)), v)
            return v
        if k == "UnaryOperator" and n.get("opcode") == "-":
            return -self.const(n["inner"][0], node)
        self.refuse("non-literal array initialiser element (%s)" % k, node)

    # ----- expressions
    def count_refs(self, n, name):
        c = 0
        if n.get("kind") == "DeclRefExpr" and n.get("referencedDecl", {}).get("name") == name:
            c += 1
        for ch in n.get("inner", []):
            c += self.count_refs(ch, name)
        return c

    def lval_read(self, n, cx):
        """read of an lvalue node"""
        k = n.get("kind")
        if k == "ParenExpr":
            return self.lval_read(n["inner"][0], cx)
        if k == "DeclRefExpr":
            nm = n["referencedDecl"]["name"]
            rk = n["referencedDecl"]["kind"]
            if rk == "EnumConstantDecl":
                self.refuse("enum constant `%s`" % nm, n)
            t = tstr(n)
            if is_ptr(t) or is_arr(t):
                self.refuse("pointer `%s` used as a value" % nm, n)
            int_ty(t, "(variable `%s`)" % nm)
            if nm not in self.declared:
                # file-scope scalar (e.g. `optblocker_u16`): static storage, read as a variable
                if rk != "VarDecl":
                    self.refuse("reference to `%s`" % nm, n)
                self.unit.notes.add("%s reads the file-scope variable `%s` (modelled as a variable that is 0 unless assigned)" % (self.name, nm))
            return L_var(nm)
        if k == "ArraySubscriptExpr":
            b, o = self.ptr(n["inner"][0], cx)
            self.note_elem(b, tstr(n["inner"][0]), n)
            if o is None:
                i = self.expr(n["inner"][1], cx)
            else:
                i = L_bin("add", U64, o, self.idx_u64(n["inner"][1], cx))
            return L_load(b, i)
        if k == "UnaryOperator" and n.get("opcode") == "*":
            b, o = self.ptr(n["inner"][0], cx)
            self.note_elem(b, tstr(n["inner"][0]), n)
            return L_load(b, o if o is not None else L_lit(0))
        self.refuse("lvalue of kind %s" % k, n)

    def expr(self, n, cx):
        k = n.get("kind")
        ln = line_of(n)
        if ln:
            self.last_line = ln
        if k == "ParenExpr":
            return self.expr(n["inner"][0], cx)
        if k == "ConstantExpr":
            if "value" in n:
                return L_lit(int(n["value"]))
            return self.expr(n["inner"][0], cx)
        if k == "IntegerLiteral":
            return L_lit(wrap(int_ty(tstr(n)), int(n["value"])))
        if k == "CharacterLiteral":
            return L_lit(int(n["value"]))
        if k in ("ImplicitCastExpr", "CStyleCastExpr"):
            ck = n.get("castKind")
            s = n["inner"][0]
            if ck == "LValueToRValue":
                return self.lval_read(s, cx)
            if ck == "NoOp":
                return self.expr(s, cx)
            if ck == "IntegralCast":
                ty = int_ty(tstr(n), "(cast)")
                if s.get("kind") == "IntegerLiteral":
                    return L_lit(wrap(ty, int(s["value"])))
                return L_cast(ty, self.expr(s, cx))
            self.refuse("cast of kind %s to `%s`" % (ck, tstr(n)), n)
        if k == "UnaryExprOrTypeTraitExpr":
            if n.get("name") != "sizeof":
                self.refuse(n.get("name"), n)
            if "argType" in n:
                at = n["argType"]
                return L_lit(sizeof_t(at.get("desugaredQualType") or at["qualType"]))
            return L_lit(sizeof_t(tstr(n["inner"][0])))
        if k == "UnaryOperator":
            op = n.get("opcode")
            s = n["inner"][0]
            if op == "+":
                return self.expr(s, cx)
            if op == "__extension__":
                return self.expr(s, cx)
            if op == "-":
                return L_un("neg", int_ty(tstr(n)), self.expr(s, cx))
            if op == "~":
                return L_un("bnot", int_ty(tstr(n)), self.expr(s, cx))
            if op == "!":
                if is_ptr(tstr(s)):
                    return self.null_test(s, "==", n)
                return L_un("lnot", I32, self.expr(s, cx))
            if op in ("++", "--"):
                return self.incdec(n, cx, as_stmt=False)
            if op == "*":
                self.refuse("`*p` outside a load/store position", n)
            self.refuse("unary operator `%s`" % op, n)
        if k == "BinaryOperator":
            op = n.get("opcode")
            l, r = n["inner"]
            if op in ("&&", "||"):
                sub = dict(cx, nohoist="under && / ||")
                a = self.cond_val(l, sub)
                b = self.cond_val(r, sub)
                return "(.%s %s %s)" % ("land" if op == "&&" else "lor", a, b)
            if op in CMP and (is_ptr(tstr(l)) or is_ptr(tstr(r))):
                return self.null_cmp(l, r, op, n)
            if op in BINOPS:
                if is_ptr(tstr(n)) or is_ptr(tstr(l)) or is_ptr(tstr(r)):
                    self.refuse("pointer arithmetic used as a value", n)
                ty = I32 if op in CMP else int_ty(tstr(n), "(operator %s)" % op)
                return L_bin(BINOPS[op], ty, self.expr(l, cx), self.expr(r, cx))
            self.refuse("binary operator `%s` in expression position" % op, n)
        if k == "ConditionalOperator":
            c, a, b = n["inner"]
            sub = dict(cx, nohoist="under ?:")
            return "(.cond %s %s %s)" % (self.cond_val(c, sub), self.expr(a, sub), self.expr(b, sub))
        if k == "CallExpr":
            if cx.get("nohoist"):
                self.refuse("function call %s" % cx["nohoist"], n)
            self.tmp += 1
            t = "call%d__" % self.tmp
            cx["pre"].append(self.call(n, t, cx))
            return L_var(t)
        if k == "DeclRefExpr":
            self.refuse("reference to `%s` without lvalue conversion" % n.get("referencedDecl", {}).get("name"), n)
        self.refuse("expression of kind %s" % k, n)

    def cond_val(self, n, cx):
        if is_ptr(tstr(n)):
            return self.null_test(n, "!=", n)
        return self.expr(n, cx)

    def is_null(self, n):
        while n.get("kind") in ("ParenExpr", "ImplicitCastExpr", "CStyleCastExpr"):
            if n.get("castKind") == "NullToPointer":
                return True
            n = n["inner"][0]
        return False

    def null_cmp(self, l, r, op, node):
        if op not in ("==", "!="):
            self.refuse("ordered comparison of pointers", node)
        if self.is_null(r):
            return self.null_test(l, op, node)
        if self.is_null(l):
            return self.null_test(r, op, node)
        self.refuse("comparison of two pointers", node)

    def null_test(self, p, op, node):
        while p.get("kind") in ("ParenExpr", "ImplicitCastExpr", "CStyleCastExpr"):
            p = p["inner"][0]
        if p.get("kind") != "DeclRefExpr" or p["referencedDecl"]["name"] not in self.ptr_params:
            self.refuse("NULL test of something else than a pointer parameter", node)
        v = p["referencedDecl"]["name"] + "__isnull"
        if v not in self.null_params:
            self.null_params.append(v)
        # p == NULL  <->  isnull != 0
        return L_bin("ne" if op == "==" else "eq", I32, L_var(v), L_lit(0))

    def incdec(self, n, cx, as_stmt):
        op = n["opcode"]
        s = n["inner"][0]
        while s.get("kind") == "ParenExpr":
            s = s["inner"][0]
        if s.get("kind") != "DeclRefExpr":
            self.refuse("`%s` applied to something else than a local variable" % op, n)
        nm = s["referencedDecl"]["name"]
        t = tstr(s)
        if is_ptr(t):
            self.refuse("`%s` on the pointer `%s`" % (op, nm), n)
        ty = int_ty(t)
        if nm not in self.declared:
            self.refuse("`%s` on the non-local `%s`" % (op, nm), n)
        upd = '.assign "%s" %s' % (nm, L_bin("add" if op == "++" else "sub", ty, L_var(nm), L_lit(1)))
        if as_stmt:
            return upd
        if cx.get("nohoist"):
            self.refuse("`%s%s` %s" % (nm, op, cx["nohoist"]), n)
        if self.count_refs(cx["full"], nm) != 1:
            self.refuse("`%s%s` in an expression that mentions `%s` again" % (nm, op, nm), n)
        (cx["post"] if n.get("isPostfix") else cx["pre"]).append(upd)
        return L_var(nm)

    # ----- calls
    def callee_name(self, n):
        f = n["inner"][0]
        while f.get("kind") in ("ImplicitCastExpr", "ParenExpr"):
            f = f["inner"][0]
        if f.get("kind") != "DeclRefExpr" or f["referencedDecl"].get("kind") != "FunctionDecl":
            self.refuse("indirect call", n)
        return f["referencedDecl"]["name"], f["type"]["qualType"]

    def call(self, n, dst, cx):
        name, fty = self.callee_name(n)
        if name in NORETURN or "noreturn" in fty:
            return ".abort"
        callee = self.unit.function(name, n, self)
        args, arrs = [], []
        for a in n["inner"][1:]:
            t = tstr(a)
            if is_ptr(t) or is_arr(t):
                b, o = self.ptr(a, cx)
                if o is not None:
                    self.refuse("pointer argument with an offset in the call of %s" % name, n)
                arrs.append(b)
            else:
                args.append(self.expr(a, cx))
        if len(set(arrs)) != len(arrs):
            self.refuse("the same array passed twice to %s (aliasing)" % name, n)
        if len(args) != len(callee.params) - len(callee.null_params) or len(arrs) != len(callee.arr_params):
            self.refuse("argument count mismatch in the call of %s" % name, n)
        if callee.null_params:
            self.refuse("callee %s tests a pointer parameter for NULL" % name, n)
        if name not in self.callees:
            self.callees.append(name)
        return '.call %s "%s" [%s] [%s]' % ('(some "%s")' % dst if dst else "none", name, ", ".join(args), ", ".join('"%s"' % a for a in arrs))

    # ----- statements
    def new_cx(self, full, nohoist=None):
        return {"pre": [], "post": [], "full": full, "nohoist": nohoist}

    def wrapcx(self, cx, s):
        return cx["pre"] + s + cx["post"]

    def assign_to(self, lhs, rhs_of, cx, node):
        """lhs: lvalue node; rhs_of(read_lhs_thunk) -> value expr string"""
        while lhs.get("kind") == "ParenExpr":
            lhs = lhs["inner"][0]
        k = lhs.get("kind")
        if k == "DeclRefExpr":
            nm = lhs["referencedDecl"]["name"]
            t = tstr(lhs)
            if is_ptr(t):
                self.refuse("assignment to the pointer `%s` (only one top-level assignment of a pointer local is allowed)" % nm, node)
            int_ty(t)
            if nm not in self.declared:
                self.refuse("assignment to the non-local `%s`" % nm, node)
            return ['.assign "%s" %s' % (nm, rhs_of(lambda: L_var(nm)))]
        if k in ("ArraySubscriptExpr", "UnaryOperator"):
            ld = self.lval_read(lhs, cx)      # (.load "a" idx)
            m = re.match(r'^\(\.load "([^"]+)" (.*)\)$', ld, re.S)
            a, idx = m.group(1), m.group(2)
            if a in [g[0] for g in self.global_arrays] or a in self.const_arrays:
                self.refuse("store into the constant array `%s`" % a, node)
            return ['.store "%s" %s %s' % (a, idx, rhs_of(lambda: ld))]
        self.refuse("assignment to an lvalue of kind %s" % k, node)

    def try_ptr_assign(self, n, toplevel):
        """`p = <pointer expression>` for a declared pointer local"""
        l, r = n["inner"]
        while l.get("kind") == "ParenExpr":
            l = l["inner"][0]
        if l.get("kind") == "DeclRefExpr" and is_ptr(tstr(l)):
            nm = l["referencedDecl"]["name"]
            if nm not in self.ptr_locals or self.ptr_locals[nm]:
                self.refuse("re-assignment of the pointer `%s`" % nm, n)
            if not toplevel:
                self.refuse("assignment of the pointer `%s` inside a loop or branch" % nm, n)
            cx = self.new_cx(n, nohoist="in a pointer assignment")
            return self.bind_ptr(nm, r, cx, n)
        return None

    def bind_ptr(self, nm, init, cx, node):
        b, o = self.ptr(init, cx)
        self.note_elem(b, tstr(init), node)
        self.ptr_locals[nm] = True
        if o is None:
            self.alias[nm] = (b, None)
            return []
        self.alias[nm] = (b, nm)
        self.int_vars[nm] = U64
        return ['.assign "%s" %s' % (nm, o)]

    def expr_stmt(self, n, toplevel):
        """an expression used as a statement -> list of statement strings"""
        k = n.get("kind")
        ln = line_of(n)
        if ln:
            self.last_line = ln
        if k == "ParenExpr":
            return self.expr_stmt(n["inner"][0], toplevel)
        if k == "UnaryOperator" and n.get("opcode") == "__extension__":
            return self.expr_stmt(n["inner"][0], toplevel)
        if k == "StmtExpr":
            return self.stmt(n["inner"][0], False)
        if k == "BinaryOperator" and n.get("opcode") == ",":
            return self.expr_stmt(n["inner"][0], toplevel) + self.expr_stmt(n["inner"][1], toplevel)
        if k == "CStyleCastExpr" and n.get("castKind") == "ToVoid":
            s = n["inner"][0]
            while s.get("kind") in ("ParenExpr", "ImplicitCastExpr"):
                s = s["inner"][0]
            if s.get("kind") in ("DeclRefExpr", "UnaryExprOrTypeTraitExpr", "IntegerLiteral"):
                return []
            self.refuse("(void) of an expression of kind %s" % s.get("kind"), n)
        if k == "BinaryOperator" and n.get("opcode") == "=":
            pa = self.try_ptr_assign(n, toplevel)
            if pa is not None:
                return pa
            cx = self.new_cx(n)
            l, r = n["inner"]
            rv = self.expr(r, cx)
            return self.wrapcx(cx, self.assign_to(l, lambda rd: rv, cx, n))
        if k == "CompoundAssignOperator":
            op = n["opcode"][:-1]
            if op not in BINOPS:
                self.refuse("compound assignment `%s`" % n["opcode"], n)
            cx = self.new_cx(n)
            l, r = n["inner"]
            lt = tstr(l)
            if is_ptr(lt):
                self.refuse("compound assignment to the pointer", n)
            lty = int_ty(lt)
            clt = int_ty(strip_quals(n["computeLHSType"].get("desugaredQualType") or n["computeLHSType"]["qualType"]))
            crt = int_ty(strip_quals(n["computeResultType"].get("desugaredQualType") or n["computeResultType"]["qualType"]))
            rv = self.expr(r, cx)

            def rhs(rd):
                lv = rd()
                if clt != lty:
                    lv = L_cast(clt, lv)
                e = L_bin(BINOPS[op], crt, lv, rv)
                return e if crt == lty else L_cast(lty, e)
            return self.wrapcx(cx, self.assign_to(l, rhs, cx, n))
        if k == "UnaryOperator" and n.get("opcode") in ("++", "--"):
            return [self.incdec(n, None, as_stmt=True)]
        if k == "CallExpr":
            cx = self.new_cx(n)
            c = self.call(n, None, cx)
            return self.wrapcx(cx, [c])
        self.refuse("expression statement of kind %s" % k, n)

    def has_kind(self, n, kinds, stop=()):
        if n.get("kind") in kinds:
            return True
        return any(self.has_kind(c, kinds, stop) for c in n.get("inner", []) if c.get("kind") not in stop)

    def block(self, ss):
        ss = [s for s in ss if s != ".skip"]
        if not ss:
            return ".skip"
        if len(ss) == 1:
            return ss[0]
        return "Stmt.block [\n" + ",\n".join(indent(s) for s in ss) + "]"

    def cond(self, n, what):
        cx = self.new_cx(n, nohoist="in the condition of %s" % what)
        return self.cond_val(n, cx)

    def stmt(self, n, toplevel):
        k = n.get("kind")
        ln = line_of(n)
        if ln:
            self.last_line = ln
        if k == "CompoundStmt":
            out = []
            for c in n.get("inner", []):
                out += self.stmt(c, toplevel)
            return out
        if k == "NullStmt":
            return []
        if k == "DeclStmt":
            out = []
            for d in n.get("inner", []):
                if d.get("kind") != "VarDecl":
                    self.refuse("declaration of kind %s" % d.get("kind"), d)
                out += self.vardecl(d, toplevel)
            return out
        if k == "IfStmt":
            inner = n["inner"]
            if n.get("hasInit") or n.get("hasVar"):
                self.refuse("if with init/declaration", n)
            c = self.cond(inner[0], "if")
            th = self.block(self.stmt(inner[1], False))
            el = self.block(self.stmt(inner[2], False)) if len(inner) > 2 else ".skip"
            return [".ite %s\n%s\n%s" % (c, indent(par(th)), indent(par(el)))]
        if k == "ForStmt":
            init, cvar, c, inc, body = n["inner"]
            if cvar:
                self.refuse("for with a condition variable", n)
            if self.has_kind(body, ("ContinueStmt",), stop=("ForStmt", "WhileStmt", "DoStmt")):
                self.refuse("`continue` inside a for loop", n)
            out = []
            if init:
                out += self.stmt(init, toplevel) if init.get("kind") == "DeclStmt" else self.expr_stmt(init, False)
            cc = self.cond(c, "for") if c else L_lit(1)
            b = self.stmt(body, False) + (self.expr_stmt(inc, False) if inc else [])
            return out + [".while %s\n%s" % (cc, indent(par(self.block(b))))]
        if k == "WhileStmt":
            c, body = n["inner"]
            if self.has_kind(body, ("ContinueStmt",), stop=("ForStmt", "WhileStmt", "DoStmt")):
                self.refuse("`continue`", n)
            return [".while %s\n%s" % (self.cond(c, "while"), indent(par(self.block(self.stmt(body, False)))))]
        if k == "DoStmt":
            body, c = n["inner"]
            if self.has_kind(body, ("ContinueStmt",), stop=("ForStmt", "WhileStmt", "DoStmt")):
                self.refuse("`continue`", n)
            return [".doWhile\n%s\n%s" % (indent(par(self.block(self.stmt(body, False)))), indent(self.cond(c, "do-while")))]
        if k == "ReturnStmt":
            inner = n.get("inner", [])
            if not inner or self.ret_ptr:
                if inner and self.ret_ptr:
                    self.ptr(inner[0], self.new_cx(n, nohoist="in return"))   # must still be a recognisable pointer
                return [".ret (.lit 0)"]
            cx = self.new_cx(n)
            e = self.expr(inner[0], cx)
            if cx["post"]:
                self.refuse("postfix update in a return expression", n)
            return cx["pre"] + [".ret %s" % e]
        if k == "BreakStmt":
            return [".brk"]
        if k in ("ContinueStmt", "GotoStmt", "LabelStmt", "SwitchStmt", "CaseStmt", "DefaultStmt"):
            self.refuse("`%s`" % k, n)
        if k in ("GCCAsmStmt", "MSAsmStmt"):
            self.refuse("inline assembly", n)
        if k and (k.endswith("Expr") or k.endswith("Operator") or k.endswith("Literal")):
            return self.expr_stmt(n, toplevel)
        self.refuse("statement of kind %s" % k, n)

    def vardecl(self, d, toplevel):
        nm = d["name"]
        t = tstr(d)
        qt = d["type"].get("qualType", "") + " " + d["type"].get("desugaredQualType", "")
        const_static_arr = d.get("storageClass") == "static" and is_arr(t) and re.search(r"\bconst\b", qt)
        if d.get("storageClass") in ("static", "extern") and not const_static_arr:
            self.refuse("%s local `%s`" % (d["storageClass"], nm), d)
        if const_static_arr:
            if not toplevel:
                self.refuse("static const array `%s` declared inside a loop or branch" % nm, d)
            self.const_arrays.add(nm)     # never stored to: (re-)initialising it at its declaration is equivalent
        self.declare(nm, d)
        inner = [c for c in d.get("inner", []) if not c.get("kind", "").endswith("Attr")]
        if is_ptr(t):
            et = elem_ty(t)
            if is_ptr(et) or "(" in et:
                self.refuse("local `%s` of type `%s`" % (nm, t), d)
            self.ptr_locals[nm] = False
            if inner:
                if not toplevel:
                    self.refuse("initialised pointer local `%s` inside a loop or branch" % nm, d)
                return self.bind_ptr(nm, inner[0], self.new_cx(d, nohoist="in a pointer initialiser"), d)
            return []
        if is_arr(t):
            m = re.match(r"^(.*?)\s*\[(\d+)\]$", t)
            ety = int_ty(m.group(1), "(element type of `%s`)" % nm)
            vals = self.init_list(d, ety, int(m.group(2)), d)
            self.alias[nm] = (nm, None)
            self.arr_elem[nm] = strip_quals(m.group(1))
            return ['.declArr "%s" [%s]' % (nm, ", ".join(str(v) for v in vals))]
        ty = int_ty(t, "(local `%s`)" % nm)
        self.int_vars[nm] = ty
        if not inner:
            return []
        cx = self.new_cx(d)
        e = self.expr(inner[0], cx)
        return self.wrapcx(cx, ['.assign "%s" %s' % (nm, e)])

    def translate(self):
        self.header()
        body = [c for c in self.decl["inner"] if c.get("kind") == "CompoundStmt"][0]
        ss = self.stmt(body, True)
        for v in self.null_params:
            self.params.append(v)
        pre = ['.declArr "%s" [%s]' % (g, ", ".join(str(v) for v in vals)) for g, vals in self.global_arrays]
        self.body = self.block(pre + ss)
        return self


def indent(s, n=2):
    return "\n".join(" " * n + l for l in s.split("\n"))


def par(s):
    return s if s in (".skip", ".brk", ".abort") else "(" + s + ")"


class Unit:
    """one source file under one preprocessor configuration"""

    def __init__(self, rel, variant, path=None):
        self.rel, self.variant = rel, variant
        self.path = path or os.path.join(SRC, rel)
        self.funs = {}
        self.notes = set()
        self.stack = []

    def function(self, name, node=None, caller=None):
        if name in self.funs:
            return self.funs[name]
        if name in self.stack:
            raise Refuse("recursive call of %s" % name)
        d = find_def(self.path, name, self.variant, self.rel)
        if d is None:
            if caller:
                caller.refuse("call of `%s`, which has no body in this file" % name, node)
            raise Refuse("function %s not found in %s [%s] (renamed, removed, or compiled out)" % (name, self.rel, self.variant))
        self.stack.append(name)
        try:
            f = FunTr(self, d, name).translate()
        finally:
            self.stack.pop()
        self.funs[name] = f
        return f


def closure(unit, name):
    out, todo = [], [name]
    while todo:
        f = todo.pop(0)
        if f in out:
            continue
        out.append(f)
        todo += unit.funs[f].callees
    return out


def lean_fun(f, suffix=""):
    return 'def fn_%s%s : Fun :=\n  { name := "%s"\n    params := [%s]\n    arrParams := [%s]\n    body :=\n%s }\n' % (
        f.name, suffix, f.name, ", ".join('"%s"' % p for p in f.params), ", ".join('"%s"' % p for p in f.arr_params), indent(f.body, 6))


def spec_of(name, table):
    if name in table:
        t = table[name]
    elif name in CALLEE_SPECS:
        t = CALLEE_SPECS[name]
    else:
        raise Refuse("no secret/public labelling for the callee %s in tools/c2minic.py (CALLEE_SPECS)" % name)
    return '("%s", ⟨[%s], [%s], %s⟩)' % (name, ", ".join('"%s"' % p for p in t["pub"]), ", ".join('"%s"' % p for p in t["pubarr"]), "true" if t["ret"] else "false")


def same_as_portable(un, unit, rel, fn):
    up = unit(rel, "portable")
    up.function(fn)
    return closure(un, fn) == closure(up, fn) and all(lean_fun(un.funs[g]) == lean_fun(up.funs[g]) for g in closure(un, fn))


def generate(targets=None, src_override=None, only=None):
    """-> (funs_text, obligations_text, report).  src_override: {rel: path} to translate a scratch copy."""
    targets = targets or TARGETS
    src_override = src_override or {}
    table = {t["fn"]: t for t in targets}
    units = {}

    def unit(rel, variant):
        if (rel, variant) not in units:
            units[(rel, variant)] = Unit(rel, variant, src_override.get(rel))
        return units[(rel, variant)]
    defs, obls, report, header_notes = [], [], [], []
    emitted = {}
    for t in targets:
        if only and t["fn"] not in only:
            continue
        fn, rel = t["fn"], t["file"]
        native_err = None
        un = None
        try:
            un = unit(rel, "native")
            un.function(fn)
        except Refuse as e:
            if not t.get("asm"):
                raise
            native_err, un = str(e), None
        if un is None:
            # fall back to the C path compiled when the assembly / intrinsics are configured out:
            # first `noasm` (keeps HAVE_TI_MODE: 64-bit limbs), then `portable`
            alt = None
            try:
                ua = unit(rel, "noasm")
                ua.function(fn)
                alt = ("noasm", ua)
            except Refuse:
                up = unit(rel, "portable")
                up.function(fn)
                alt = ("portable", up)
            variants = [(alt[0], alt[1], "")]
            header_notes.append("%s: the native x86-64 build has a fast path MiniC cannot express (%s); the C path of the `%s` configuration is translated"
                                % (fn, native_err.split(" (function")[0].replace("unsupported construct: ", ""), alt[0]))
        elif same_as_portable(un, unit, rel, fn):
            variants = [("native = portable", un, "")]
        else:
            variants = [("native", un, ""), ("portable", unit(rel, "portable"), "_portable")]
        # the configuration each function is translated from is PINNED (tools/minic_variants.json): when a change to the source makes the
        # pinned configuration untranslatable, silently translating another configuration's (unchanged) code would accept the obligation
        # for code the build does not compile — refuse instead
        vlabel = "+".join(v[0] for v in variants)
        pinned = PINNED_VARIANTS.get(fn)
        if pinned is not None and pinned != vlabel:
            raise Refuse("`%s` was translated from the `%s` configuration; with the current source only `%s` can be translated%s" % (
                fn, pinned, vlabel, (" (" + native_err[:300] + ")") if native_err else ""))
        for vname, u, suffix in variants:
            cl = closure(u, fn)
            for g in cl:
                txt = lean_fun(u.funs[g], suffix)
                if (g, suffix) in emitted:
                    if emitted[(g, suffix)] != txt:
                        raise Refuse("internal: two different translations of %s under the same name" % g)
                    continue
                emitted[(g, suffix)] = txt
                defs.append("/-- %s : `%s` [%s configuration] -/\n%s" % (rel, g, vname, txt))
            f = u.funs[fn]
            for p in t["pub"]:
                if p not in f.params:
                    raise Refuse("the label table names `%s` as a public scalar parameter of %s, but its parameters are now %s" % (p, fn, f.params))
            for p in t["pubarr"]:
                if p not in f.arr_params and p not in [g[0] for g in f.global_arrays]:
                    raise Refuse("the label table names `%s` as a public array of %s, but its arrays are now %s" % (p, fn, f.arr_params))
            defs.append("def prog_%s%s : Program := [%s]\n" % (fn, suffix, ", ".join("fn_%s%s" % (g, suffix) for g in cl)))
            specs = "[" + ", ".join(spec_of(g, table) for g in cl) + "]"
            sec_s = [p for p in f.params if p not in t["pub"]]
            sec_a = [p for p in f.arr_params if p not in t["pubarr"]]
            doc = "`%s` (%s, %s): SECRET scalars %s, SECRET array contents %s; PUBLIC scalars %s, PUBLIC array contents %s; result %s" % (
                fn, rel, vname, sec_s, sec_a, t["pub"], t["pubarr"], "PUBLIC" if t["ret"] else "SECRET")
            N = fn + suffix
            obls.append(("def specs_{N} : Ctx := {specs}\ndef spec_{N} : Spec := {spec}\n\n"
                         "/-- the checker accepts {doc} -/\ntheorem ct_{N} : ctCheck prog_{N} \"{fn}\" specs_{N} = true := by decide +kernel\n\n"
                         "/-- non-interference of the leakage trace of {doc} -/\ntheorem ni_{N} : NonInterferent prog_{N} fn_{N} spec_{N} :=\n"
                         "  soundness ct_{N} (by decide +kernel) (by decide +kernel)\n").format(
                             N=N, fn=fn, specs=specs, spec=spec_of(fn, table).split(", ", 1)[1][:-1], doc=doc))
            report.append(dict(fn=fn, file=rel, variant=vname, theorem="ct_" + N, callees=cl[1:]))
    notes = sorted(set().union(*[u.notes for u in units.values()])) if units else []
    hdr = ("/-\n  GENERATED by tools/c2minic.py from the current source under %s — do not edit.\n"
           "  MiniC translations of libsodium's constant-time leaf helpers (see the translator's docstring for the\n"
           "  normalisations it performs).\n%s%s-/\n") % (SRC, "".join("  * " + h + "\n" for h in header_notes), "".join("  * " + h + "\n" for h in notes))
    funs_text = "import SodiumModel.MiniC.Syntax\n" + hdr + "open MiniC\nnamespace Sodium.Generated.MiniC\n\n" + "\n".join(defs) + "\nend Sodium.Generated.MiniC\n"
    obl_text = ("import Generated.MiniCFuns\nimport SodiumModel.MiniC.Soundness\n/-\n  GENERATED by tools/c2minic.py — do not edit.\n"
                "  Kernel-checked obligations: the MiniC constant-time checker accepts every function translated from the\n"
                "  current source under the secret/public labelling of the translator's table, and the instantiated\n"
                "  non-interference corollaries (MiniC.soundness).\n-/\nopen MiniC\nnamespace Sodium.Generated.MiniC\n\n" + "\n".join(obls) + "\nend Sodium.Generated.MiniC\n")
    return funs_text, obl_text, report


def emit(lean_dir, **kw):
    f, o, rep = generate(**kw)
    g = os.path.join(lean_dir, "Generated")
    os.makedirs(g, exist_ok=True)
    for name, txt in (("MiniCFuns.lean", f), ("MiniCObligations.lean", o)):
        p = os.path.join(g, name)
        if not os.path.exists(p) or open(p).read() != txt:
            open(p, "w").write(txt)
    return rep


def run_tie(lean_dir, src_override=None, examples=True):
    """Regenerate + let the kernel check.  -> dict(status = "ok" | "refused" | "failed", ...)
       refused: the translator no longer recognises the source (message in `error`)
       failed : `failed` lists the obligations (theorem names) that no longer check, `log` the tail of lake's output"""
    try:
        rep = emit(lean_dir, src_override=src_override)
    except Refuse as e:
        return dict(status="refused", error=str(e), failed=[], translated=[])
    mods = ["+Generated.MiniCObligations"] + (["+Generated.MiniCExamples"] if examples and os.path.exists(os.path.join(lean_dir, "Generated", "MiniCExamples.lean")) else [])
    p = subprocess.run(["lake", "build"] + mods, cwd=lean_dir, capture_output=True, text=True)
    out = p.stdout + p.stderr
    if p.returncode == 0:
        return dict(status="ok", failed=[], translated=rep, log="")
    failed = []
    for fname in ("MiniCObligations.lean", "MiniCExamples.lean"):
        path = os.path.join(lean_dir, "Generated", fname)
        if not os.path.exists(path):
            continue
        src = open(path).read().split("\n")
        for m in re.finditer(r"Generated/%s:(\d+):\d+: " % re.escape(fname), out):
            ln = int(m.group(1))
            name = None
            for k in range(min(ln, len(src)) - 1, -1, -1):
                mm = re.match(r"^(theorem|example)\s*([A-Za-z0-9_']*)", src[k])
                if mm:
                    name = mm.group(2) or ("example at %s:%d" % (fname, k + 1))
                    break
            if name and name not in failed:
                failed.append(name)
    return dict(status="failed", failed=failed or ["lake build"], translated=rep, log=out[-3000:])


def main(argv):
    import argparse
    ap = argparse.ArgumentParser(description=__doc__.split("\n")[0])
    ap.add_argument("--lean", default=os.environ.get("VERIF_LEAN", "/verif/lean"), help="lake project to write Generated/MiniC*.lean into")
    ap.add_argument("--src", action="append", default=[], metavar="REL=PATH", help="translate PATH instead of /repo/src/libsodium/REL (mutation self-test)")
    ap.add_argument("--inc", action="append", default=[], metavar="DIR", help="include directory searched first (scratch copy of include/sodium for header mutations)")
    ap.add_argument("--only", action="append", default=[], help="restrict to these target functions")
    ap.add_argument("--stdout", action="store_true", help="print the generated function file instead of writing")
    ap.add_argument("--check", action="store_true", help="after writing, run `lake build +Generated.MiniCObligations +Generated.MiniCExamples`; exit 1 naming the obligations that fail")
    a = ap.parse_args(argv)
    ov = dict(s.split("=", 1) for s in a.src)
    EXTRA_INC[:] = a.inc
    if a.check:
        r = run_tie(a.lean, src_override=ov)
        if r["status"] == "refused":
            sys.stderr.write("c2minic: REFUSED — translator no longer recognises the source: %s\n" % r["error"])
            return 2
        if r["status"] == "failed":
            sys.stderr.write("c2minic: obligations that no longer check: %s\n%s\n" % (", ".join(r["failed"]), r["log"][-1500:]))
            return 1
        print("c2minic: %d functions translated, all obligations check" % len(r["translated"]))
        return 0
    try:
        if a.stdout:
            f, o, rep = generate(src_override=ov, only=a.only)
            sys.stdout.write(f + "\n" + o)
        else:
            rep = emit(a.lean, src_override=ov, only=a.only)
            for r in rep:
                print("translated %-28s [%s] %s" % (r["fn"], r["variant"], ("calls " + ", ".join(r["callees"])) if r["callees"] else ""))
    except Refuse as e:
        sys.stderr.write("c2minic: REFUSED — translator no longer recognises the source: %s\n" % e)
        return 2
    return 0


if __name__ == "__main__":
    sys.exit(main(sys.argv[1:]))
