#!/usr/bin/env python3
"""Tie B for C11 (constant time): translate, from /repo's CURRENT source, the bodies of libsodium's
constant-time leaf helpers into the deep embedding `MiniC` (lean/SodiumModel/MiniC/Syntax.lean) and emit

  lean/Generated/MiniCFuns.lean         def fn_<name> : MiniC.Fun := ...     (one per translated function)
                                        def prog_<name> : MiniC.Program      (function + transitive callees)
  lean/Generated/MiniCObligations.lean  theorem ct_<name> : ctCheck prog_<name> "<name>" specs_<name> = true := by decide +kernel
                                        theorem ni_<name> := soundness ct_<name> rfl rfl

The input is clang's JSON AST (`clang-14 -Xclang -ast-dump=json -Xclang -ast-dump-filter=<fn> -fsyntax-only`),
in which every implicit conversion is an explicit cast node.  Anything outside the MiniC fragment makes the
translator REFUSE (exit status 2, message naming the construct and the source line).

Normalisations performed here (trusted; they are also listed in the header of the generated file):
  * `x op= e`            ->  x = (T)((CT) x op e)   with T, CT as in clang's CompoundAssignOperator
  * `x++ x-- ++x --x`     ->  x = x +/- 1 (in the type of x); inside an expression statement the update is
                             hoisted after (postfix) / before (prefix) the statement; refused in conditions,
                             under && || ?:, or when x occurs a second time in the same full expression
  * `for (i; c; s) b`     ->  i; while (c) { b; s }     (`continue` is refused)
  * pointer locals assigned exactly once from `&a[e]`, `a + e`, `a`, `(T *) a` become an integer offset
    into the array `a` (pure aliases disappear); `*(p - i)`, `p[i]`, `*p` become loads/stores of `a`
  * a call in expression position is hoisted into a call statement with a fresh result variable
  * `p == NULL` / `p != NULL` for a pointer PARAMETER p reads the pseudo-parameter `p__isnull`
  * calls of `noreturn` functions (sodium_misuse, __assert_fail) -> abort; `(void) e` of a variable,
    `(void) sizeof …`, empty statements -> skip; glibc's assert statement-expression is unfolded
  * `return p;` of a pointer -> `ret 0` (addresses are public and not modelled)
  * reads of file-scope scalar variables read a variable of that name (0 unless assigned: static storage)
  * `volatile`, `const`, `static`, `inline` are ignored

Extensions for the larger targets (field / scalar / group arithmetic, stream-cipher cores, hashes):
  * STRUCTS are split per member: an object `s` of struct type with members `F : E[n]` / `G : E` becomes the arrays
    `s.F` (n elements) and `s.G` (1 element); an array of structs `s[k]` (any number of dimensions) becomes `s.F` with
    k*n elements; a pointer to a struct is (object, index in struct units); `p->F[i]` is `s.F[idx*n + i]`.  A struct
    pointer PARAMETER `p` contributes the array parameters `p.F`, `p.G`, … (so members can be labelled individually,
    e.g. the Public byte counter of a hash state next to its Secret chaining value).  Nested structs, unions,
    pointer members and struct assignment are refused.
  * MULTI-DIMENSIONAL arrays are flattened row-major; `a[i][j]` is `a[i*m + j]`.
  * SUB-ARRAY / ALIASED ARGUMENTS.  MiniC passes whole arrays by copy-in / copy-out, which is only faithful when the
    arguments are distinct whole arrays.  A call `f(a + o, …)` / `f(&s[k], …)` / `f(x, x)` is therefore translated to a
    call of a CLONE of `f` named `f__<shape>`: the enclosing array is passed, the offset becomes an extra Public
    scalar parameter `<param>__off` (every access `p[i]` in the clone is `a[p__off + i]`), and parameters that
    receive the same array are MERGED into one array parameter (so a store through one is seen by a load through
    the other, as in C).  The shape string lists, per pointer parameter, `o` (offset) / `n`, and per member array
    `m<k>` (merged with array number k), `p` (the caller's array is labelled Public), `x` (nothing).
  * pointers that are ADVANCED (`p += e`, `p++`, `p = p + e`, also parameters) carry an offset variable `p__off` /
    `p`; comparing or subtracting two pointers into the same array compares / subtracts the offsets.
  * `memcpy` / `memset` / `sodium_memzero` / `explicit_bzero` are inlined as element-wise loops over the (Public)
    count (byte counts over wider elements must be constant multiples of the element size); `memcpy(&w, p, sizeof w)`
    and `memcpy(p, &w, sizeof w)` for an integer variable `w` are the little-endian load / store of x86-64.
  * `switch` becomes `do { if (matched | sel == K1) { matched = 1; … } … } while (0)` (fall-through, `break`).
  * a call in the condition of an `if` is hoisted in front of the `if`; `a = b = e` and `(x op= e)` used as a value are
    hoisted likewise (the value is the variable / lvalue re-read); a local declared again in another scope gets a
    fresh name `x__2` (references are resolved through clang's declaration ids); enum constants are literals;
    `__atomic_thread_fence` (ACQUIRE_FENCE) is a no-op.
  * callees are also looked up in other source files (SEARCH_FILES); the indirect call through the file-scope function
    pointer `blake2b_compress` is resolved to the reference implementation it is statically initialised with.
  * the obligations of these targets are checked against ONE program per build configuration with the (untrusted,
    `#eval`-computed) labels of the locals supplied as a literal: `checkFn` per function, `MiniC.soundness_ctx`.
"""
import json, os, re, subprocess, sys

HERE = os.path.dirname(os.path.abspath(__file__))
for cand in (os.path.join(HERE, "..", "harness"), "/verif/harness"):
    if os.path.exists(os.path.join(cand, "build_sodium.py")):
        sys.path.insert(0, cand)
        break
import build_sodium

SRC = build_sodium.SRC


class Refuse(Exception):
    pass


_PIN = os.path.join(HERE, "minic_variants.json")
PINNED_VARIANTS = json.load(open(_PIN)) if os.path.exists(_PIN) else {}


# ------------------------------------------------------------------------------------------------
# TARGET TABLE.  Labels follow the property text: SECRET = compared buffers, keys, plaintext, the buffer
# being padded / unpadded / encoded, scalars (and everything derived from them: outputs, results);
# PUBLIC = lengths, block sizes, variant flags, output capacity, pointer null-ness.
#   pub   : public scalar parameters         pubarr : array parameters whose CONTENTS are public
#   ret   : True if the returned value is public
#   asm   : True if the native build compiles an inline-asm / intrinsics fast path that MiniC cannot express;
#           then only the portable C path is translated (and the header says so)
# ------------------------------------------------------------------------------------------------
UTILS, CODECS, VERIFY = "sodium/utils.c", "sodium/codecs.c", "crypto_verify/verify.c"
ED, FE51 = "crypto_core/ed25519/ref10/ed25519_ref10.c", "include/sodium/private/ed25519_ref10_fe_51.h"
X25519 = "crypto_scalarmult/curve25519/ref10/x25519_ref10.c"
CHACHA, SALSA = "crypto_stream/chacha20/ref/chacha20_ref.c", "crypto_core/salsa/ref/core_salsa_ref.c"
HCHACHA, HSALSA = "crypto_core/hchacha20/core_hchacha20.c", "crypto_core/hsalsa20/ref2/core_hsalsa20_ref2.c"
POLY = "crypto_onetimeauth/poly1305/donna/poly1305_donna.c"
SHA512, SHA256 = "crypto_hash/sha512/cp/hash_sha512_cp.c", "crypto_hash/sha256/cp/hash_sha256_cp.c"
B2C, B2 = "crypto_generichash/blake2b/ref/blake2b-compress-ref.c", "crypto_generichash/blake2b/ref/blake2b-ref.c"
SIP = "crypto_shorthash/siphash24/ref/shorthash_siphash24_ref.c"
TARGETS = [
    dict(file=UTILS, fn="sodium_memcmp", pub=["len"], pubarr=[], ret=False),
    dict(file=UTILS, fn="sodium_is_zero", pub=["nlen"], pubarr=[], ret=False),
    dict(file=UTILS, fn="sodium_compare", pub=["len"], pubarr=[], ret=False),
    dict(file=UTILS, fn="sodium_increment", pub=["nlen"], pubarr=[], ret=True, asm=True),
    dict(file=UTILS, fn="sodium_add", pub=["len"], pubarr=[], ret=True, asm=True),
    dict(file=UTILS, fn="sodium_sub", pub=["len"], pubarr=[], ret=True, asm=True),
    dict(file=UTILS, fn="sodium_pad", pub=["unpadded_buflen", "blocksize", "max_buflen", "padded_buflen_p__isnull"],
         pubarr=["padded_buflen_p"], ret=True),
    dict(file=UTILS, fn="sodium_unpad", pub=["padded_buflen", "blocksize"], pubarr=[], ret=False),
    dict(file=CODECS, fn="sodium_bin2hex", pub=["hex_maxlen", "bin_len"], pubarr=[], ret=True),
    dict(file=CODECS, fn="b64_byte_to_char", pub=[], pubarr=[], ret=False),
    dict(file=CODECS, fn="b64_byte_to_urlsafe_char", pub=[], pubarr=[], ret=False),
    dict(file=CODECS, fn="sodium_bin2base64", pub=["b64_maxlen", "bin_len", "variant"], pubarr=[], ret=True),
    dict(file=CODECS, fn="b64_char_to_byte", pub=[], pubarr=[], ret=False),
    dict(file=CODECS, fn="b64_urlsafe_char_to_byte", pub=[], pubarr=[], ret=False),
    dict(file=VERIFY, fn="crypto_verify_n", pub=["n"], pubarr=[], ret=False, asm=True),
    dict(file=VERIFY, fn="crypto_verify_16", pub=[], pubarr=[], ret=False, asm=True),
    dict(file=VERIFY, fn="crypto_verify_32", pub=[], pubarr=[], ret=False, asm=True),
    dict(file=VERIFY, fn="crypto_verify_64", pub=[], pubarr=[], ret=False, asm=True),
    dict(file=ED, fn="sc25519_is_canonical", pub=[], pubarr=[], ret=False),
    dict(file=ED, fn="ge25519_is_canonical", pub=[], pubarr=[], ret=False),
    dict(file=ED, fn="equal", pub=[], pubarr=[], ret=False, asm=True),
    dict(file=ED, fn="negative", pub=[], pubarr=[], ret=False, asm=True),
    dict(file=ED, fn="fe25519_cmov", pub=[], pubarr=[], ret=True, asm=True),
    dict(file=ED, fn="fe25519_cswap", pub=[], pubarr=[], ret=True, asm=True),
    # ---- field arithmetic (native: 51-bit limbs with unsigned __int128; portable: 25.5-bit limbs, 64-bit products)
    dict(file=ED, fn="fe25519_0", pub=[], pubarr=[], ret=True, big=True, asm=True),
    dict(file=ED, fn="fe25519_1", pub=[], pubarr=[], ret=True, big=True, asm=True),
    dict(file=ED, fn="fe25519_add", pub=[], pubarr=[], ret=True, big=True, asm=True),
    dict(file=ED, fn="fe25519_sub", pub=[], pubarr=[], ret=True, big=True, asm=True),
    dict(file=ED, fn="fe25519_neg", pub=[], pubarr=[], ret=True, big=True, asm=True),
    dict(file=ED, fn="fe25519_copy", pub=[], pubarr=[], ret=True, big=True, asm=True),
    dict(file=ED, fn="fe25519_isnegative", pub=[], pubarr=[], ret=False, big=True, asm=True),
    dict(file=ED, fn="fe25519_iszero", pub=[], pubarr=[], ret=False, big=True, asm=True),
    dict(file=ED, fn="fe25519_mul", pub=[], pubarr=[], ret=True, big=True, asm=True),
    dict(file=ED, fn="fe25519_sq", pub=[], pubarr=[], ret=True, big=True, asm=True),
    dict(file=ED, fn="fe25519_sq2", pub=[], pubarr=[], ret=True, big=True, asm=True),
    dict(file=ED, fn="fe25519_mul32", pub=[], pubarr=[], ret=True, big=True, asm=True),
    dict(file=ED, fn="fe25519_frombytes", pub=[], pubarr=[], ret=True, big=True, asm=True),
    dict(file=ED, fn="fe25519_tobytes", pub=[], pubarr=[], ret=True, big=True, asm=True),
    dict(file=ED, fn="fe25519_invert", pub=[], pubarr=[], ret=True, big=True, asm=True),
    dict(file=ED, fn="fe25519_pow22523", pub=[], pubarr=[], ret=True, big=True, asm=True),
    # ---- X25519 ladder: Secret scalar n, Public point p (the early small-order rejection branches on p only), Secret output
    dict(file=X25519, fn="crypto_scalarmult_curve25519_ref10", pub=[], pubarr=["p"], ret=True, big=True, asm=True),
    # ---- scalar arithmetic mod L (everything Secret)
    dict(file=ED, fn="sc25519_reduce", pub=[], pubarr=[], ret=True, big=True, asm=True),
    dict(file=ED, fn="sc25519_muladd", pub=[], pubarr=[], ret=True, big=True, asm=True),
    dict(file=ED, fn="sc25519_mul", pub=[], pubarr=[], ret=True, big=True, asm=True),
    dict(file=ED, fn="sc25519_invert", pub=[], pubarr=[], ret=True, big=True, asm=True),
    # ---- Edwards scalar multiplication: Secret scalar, Secret digit b, Public table position; the point p is labelled Secret as well
    dict(file=ED, fn="ge25519_cmov8", pub=[], pubarr=[], ret=True, big=True, asm=True),
    dict(file=ED, fn="ge25519_cmov8_base", pub=["pos"], pubarr=[], ret=True, big=True, asm=True),
    dict(file=ED, fn="ge25519_cmov8_cached", pub=[], pubarr=[], ret=True, big=True, asm=True),
    dict(file=ED, fn="ge25519_scalarmult_base", pub=[], pubarr=[], ret=True, big=True, asm=True),
    dict(file=ED, fn="ge25519_scalarmult", pub=[], pubarr=[], ret=True, big=True, asm=True),
    # ---- stream-cipher cores: key / input / constants Secret; number of rounds and NULL-ness of the constants pointer Public
    # NOT COVERED: chacha20_encrypt_bytes (crypto_stream/chacha20/ref/chacha20_ref.c) — refused: its pointers `m`, `c` are re-assigned to a
    # different array (`m = tmp; c = tmp;` for the last partial block), and its Public block counter lives in the same array `ctx->input`
    # as the Secret key, which per-array labels cannot separate
    dict(file=SALSA, fn="crypto_core_salsa", pub=["rounds", "c__isnull"], pubarr=[], ret=True, big=True, asm=True),
    dict(file=HCHACHA, fn="crypto_core_hchacha20", pub=["c__isnull"], pubarr=[], ret=True, big=True, asm=True),
    dict(file=HSALSA, fn="crypto_core_hsalsa20", pub=["c__isnull"], pubarr=[], ret=True, big=True, asm=True),
    # ---- Poly1305 (donna64 natively, donna32 in the portable configuration): key-derived r / pad, accumulator h, buffered bytes and
    #      message Secret; message length, number of buffered bytes and the `final` flag Public
    dict(file=POLY, fn="poly1305_blocks", pub=["bytes"], pubarr=["st.leftover", "st.final"], ret=True, big=True, asm=True),
    dict(file=POLY, fn="poly1305_finish", pub=[], pubarr=["st.leftover", "st.final"], ret=True, big=True, asm=True),
    dict(file=POLY, fn="poly1305_update", pub=["bytes"], pubarr=["st.leftover", "st.final"], ret=True, big=True, asm=True),
    # ---- SHA-2: chaining value, buffered block and message Secret; message length and the bit counter Public
    dict(file=SHA512, fn="SHA512_Transform", pub=[], pubarr=[], ret=True, big=True, asm=True),
    dict(file=SHA512, fn="crypto_hash_sha512_update", pub=["inlen"], pubarr=["state.count"], ret=True, big=True, asm=True),
    dict(file=SHA512, fn="SHA512_Pad", pub=[], pubarr=["state.count"], ret=True, big=True, asm=True),
    dict(file=SHA512, fn="crypto_hash_sha512_final", pub=[], pubarr=["state.count"], ret=True, big=True, asm=True),
    dict(file=SHA256, fn="SHA256_Transform", pub=[], pubarr=[], ret=True, big=True, asm=True),
    dict(file=SHA256, fn="crypto_hash_sha256_update", pub=["inlen"], pubarr=["state.count"], ret=True, big=True, asm=True),
    dict(file=SHA256, fn="SHA256_Pad", pub=[], pubarr=["state.count"], ret=True, big=True, asm=True),
    dict(file=SHA256, fn="crypto_hash_sha256_final", pub=[], pubarr=["state.count"], ret=True, big=True, asm=True),
    # ---- BLAKE2b (reference compression function): chaining value, buffer, message (and key, absorbed as message) Secret;
    #      byte counter t, finalisation flags f, buffer fill, last_node, lengths Public
    dict(file=B2C, fn="blake2b_compress_ref", pub=[], pubarr=["S.t", "S.f", "S.buflen", "S.last_node"], ret=True, big=True, asm=True),
    dict(file=B2, fn="blake2b_update", pub=["inlen"], pubarr=["S.t", "S.f", "S.buflen", "S.last_node"], ret=True, big=True, asm=True),
    dict(file=B2, fn="blake2b_final", pub=["outlen"], pubarr=["S.t", "S.f", "S.buflen", "S.last_node"], ret=True, big=True, asm=True),
    # ---- SipHash-2-4: key and message Secret, message length Public
    dict(file=SIP, fn="crypto_shorthash_siphash24", pub=["inlen"], pubarr=[], ret=True, big=True, asm=True),
]
# labels of helper functions that are only reached as callees of the targets
CALLEE_SPECS = {
    "_sodium_dummy_symbol_to_prevent_memcmp_lto": dict(pub=["len"], pubarr=[], ret=True),
    "_sodium_dummy_symbol_to_prevent_compare_lto": dict(pub=["len"], pubarr=[], ret=True),
    "sodium_base64_check_variant": dict(pub=["variant"], pubarr=[], ret=True),
    "fe25519_sqmul": dict(pub=["n"], pubarr=[], ret=True),
    "blake2b_increment_counter": dict(pub=["inc"], pubarr=[], ret=True),      # the byte counter is advanced by a Public amount
    "blake2b_is_lastblock": dict(pub=[], pubarr=[], ret=True), "blake2b_set_lastblock": dict(pub=[], pubarr=[], ret=True),
    "blake2b_set_lastnode": dict(pub=[], pubarr=[], ret=True),
    "be64dec_vect": dict(pub=["len"], pubarr=[], ret=True), "be64enc_vect": dict(pub=["len"], pubarr=[], ret=True),
    "be32dec_vect": dict(pub=["len"], pubarr=[], ret=True), "be32enc_vect": dict(pub=["len"], pubarr=[], ret=True),
    "has_small_order": dict(pub=[], pubarr=[], ret=True),     # only reached with a Public argument (clone has_small_order__np)
    "sc25519_sqmul": dict(pub=["n"], pubarr=[], ret=True),
    "rotl32": dict(pub=["b"], pubarr=[], ret=False), "rotr32": dict(pub=["b"], pubarr=[], ret=False),
    "rotl64": dict(pub=["b"], pubarr=[], ret=False), "rotr64": dict(pub=["b"], pubarr=[], ret=False),
}
NORETURN = {"sodium_misuse", "abort", "__assert_fail", "exit"}

# other files in which a callee without a body in the caller's file is looked up
SEARCH_FILES = {
    "fe25519_invert": [ED], "fe25519_pow22523": [ED], "fe25519_frombytes": [ED], "fe25519_tobytes": [ED],
    "sodium_is_zero": [UTILS], "sodium_memcmp": [UTILS], "crypto_verify_32": [VERIFY], "crypto_verify_16": [VERIFY],
    "ge25519_scalarmult_base": [ED], "ge25519_scalarmult": [ED], "sc25519_reduce": [ED], "sc25519_muladd": [ED],
    "blake2b_compress_ref": [B2C],
}
# libc / libsodium memory primitives that are inlined as loops
INTRINSICS = {"memcpy", "memmove", "memset", "sodium_memzero", "explicit_bzero", "__builtin_memcpy", "__builtin_memset"}
# compiler barriers: no data effect, no memory access of their own
NOOPS = {"__atomic_thread_fence", "__sync_synchronize", "__atomic_signal_fence"}
# file-scope function pointers (run-time dispatch) -> the portable implementation they are statically initialised with
FUNPTR_PINS = {"blake2b_compress": "blake2b_compress_ref"}

# ------------------------------------------------------------------------------------------------
# clang front end: ONE full JSON AST dump per (file, configuration), indexed by name
# ------------------------------------------------------------------------------------------------
_AST_CACHE = {}
EXTRA_INC = []      # include directories searched first (mutation self-test of headers: a scratch copy of include/sodium)


class UnitAST:
    def __init__(self, top):
        self.funcs, self.globals, self.fields, self.recname, self.typedef_rec, self.enums = {}, {}, {}, {}, {}, {}
        for o in top.get("inner", []):
            k = o.get("kind")
            if k == "EnumDecl":
                nxt = 0
                for c in o.get("inner", []):
                    if c.get("kind") != "EnumConstantDecl":
                        continue
                    v = None
                    for x in c.get("inner", []):
                        while x.get("kind") in ("ImplicitCastExpr", "ParenExpr") and "value" not in x:
                            x = x["inner"][0]
                        if "value" in x:
                            v = int(x["value"])
                    if v is None:
                        v = nxt
                    self.enums[c["name"]] = v
                    nxt = v + 1
            if k == "FunctionDecl":
                if any(c.get("kind") == "CompoundStmt" for c in o.get("inner", [])):
                    self.funcs[o.get("name")] = o
            elif k == "VarDecl":
                if o.get("name") not in self.globals or any(not c.get("kind", "").endswith("Attr") for c in o.get("inner", [])):
                    self.globals[o.get("name")] = o
            elif k == "RecordDecl":
                fs = [(f["name"], strip_quals(f["type"].get("desugaredQualType") or f["type"]["qualType"]))
                      for f in o.get("inner", []) if f.get("kind") == "FieldDecl" and f.get("name")]
                if o.get("completeDefinition") or fs:
                    self.fields[o["id"]] = (o.get("tagUsed", "struct"), fs)
                    if o.get("name"):
                        self.recname[o["name"]] = o["id"]
            elif k == "TypedefDecl":
                rid = self._find_rec(o)
                if rid:
                    self.typedef_rec[o["name"]] = rid

    def _find_rec(self, n):
        d = n.get("decl")
        if d and d.get("kind") == "RecordDecl":
            return d["id"]
        for c in n.get("inner", []):
            r = self._find_rec(c)
            if r:
                return r
        return None

    def struct_fields(self, t):
        """fields [(name, type string)] of the struct type named by the type string t, or None"""
        t = strip_quals(t)
        if t.startswith("struct "):
            t = t[7:].strip()
        rid = self.recname.get(t) or self.typedef_rec.get(t)
        if rid is None or rid not in self.fields:
            return None
        tag, fs = self.fields[rid]
        if tag != "struct":
            return None
        return fs


def clang_ast(path, variant, rel):
    key = (path, variant, tuple(EXTRA_INC))
    if key in _AST_CACHE:
        return _AST_CACHE[key]
    inc = ["-I" + d for d in EXTRA_INC] + ["-I" + os.path.join(SRC, "include"), "-I" + os.path.join(SRC, "include", "sodium"),
           "-I" + os.path.dirname(os.path.join(SRC, rel))]
    cmd = ["clang-14", "-Xclang", "-ast-dump=json", "-fsyntax-only", "-w"] + \
        build_sodium.defs_for(variant) + inc + build_sodium.mflags(rel) + ["-x", "c", path]
    p = subprocess.run(cmd, capture_output=True, text=True)
    if p.returncode != 0:
        raise Refuse("clang failed on %s [%s]: %s" % (path, variant, p.stderr[-800:]))
    a = UnitAST(json.loads(p.stdout))
    _AST_CACHE[key] = a
    return a


# ------------------------------------------------------------------------------------------------
# types (strings as clang prints them, qualifiers stripped)
# ------------------------------------------------------------------------------------------------
INT_TYPES = {
    "unsigned char": ("false", 8), "signed char": ("true", 8), "char": ("true", 8),
    "unsigned short": ("false", 16), "short": ("true", 16),
    "unsigned int": ("false", 32), "int": ("true", 32), "unsigned": ("false", 32),
    "unsigned long": ("false", 64), "long": ("true", 64),
    "unsigned long long": ("false", 64), "long long": ("true", 64),
    "unsigned __int128": ("false", 128), "__int128": ("true", 128),
    # typedef names that clang leaves un-desugared inside pointer / array types (x86-64 SysV, glibc)
    "uint8_t": ("false", 8), "uint16_t": ("false", 16), "uint32_t": ("false", 32), "uint64_t": ("false", 64),
    "int8_t": ("true", 8), "int16_t": ("true", 16), "int32_t": ("true", 32), "int64_t": ("true", 64),
    "size_t": ("false", 64), "uint_fast16_t": ("false", 64), "uint128_t": ("false", 128),
    "u8": ("false", 8), "u32": ("false", 32), "u64": ("false", 64), "_Bool": ("false", 8),
}
TY_NAMES = {("false", 8): ".u8", ("false", 16): ".u16", ("false", 32): ".u32", ("false", 64): ".u64",
            ("true", 8): ".i8", ("true", 16): ".i16", ("true", 32): ".i32", ("true", 64): ".i64"}


def strip_quals(t):
    t = re.sub(r"\b(const|volatile|restrict|__restrict)\b", " ", t)
    return re.sub(r"\s+", " ", t).strip()


def tstr(node):
    t = node.get("type", {})
    return strip_quals(t.get("desugaredQualType") or t.get("qualType") or "")


def is_ptr(t):
    return t.endswith("*") or "(*)" in t


def split_arr(t):
    """'T[a][b]' -> ('T', [a, b])"""
    t = strip_quals(t)
    if is_ptr(t):
        return t, []
    m = re.match(r"^(.*?)\s*((?:\[\d+\])+)$", t)
    if not m:
        return t, []
    return m.group(1).strip(), [int(x) for x in re.findall(r"\[(\d+)\]", m.group(2))]


def is_arr(t):
    return bool(split_arr(t)[1])


def pointee(t):
    """type pointed to by a pointer type / element type of an array type"""
    t = strip_quals(t)
    m = re.match(r"^(.*?)\s*\(\*\)((?:\[\d+\])+)$", t)
    if m:
        return m.group(1).strip() + m.group(2)
    if t.endswith("*"):
        return t[:-1].strip()
    b, dims = split_arr(t)
    if dims:
        return b + "".join("[%d]" % d for d in dims[1:])
    raise Refuse("not a pointer/array type: " + t)


def units(t):
    """number of scalar (or struct) units an object of type t occupies in the flattened layout"""
    n = 1
    for d in split_arr(t)[1]:
        n *= d
    return n


def scalar_of(t):
    return split_arr(t)[0]


def int_ty(t, where=""):
    t = strip_quals(t)
    if t in INT_TYPES:
        return INT_TYPES[t]
    raise Refuse("unsupported type `%s` %s" % (t, where))


def ty_lean(ty):
    return TY_NAMES.get(ty) or "⟨%s, %d⟩" % ty


def wrap(ty, v):
    s, b = ty
    v %= 1 << b
    if s == "true" and v >= 1 << (b - 1):
        v -= 1 << b
    return v


def sizeof_t(t):
    t = strip_quals(t)
    if is_ptr(t):
        return 8
    b, dims = split_arr(t)
    if b == "void":
        return 1
    return (int_ty(b, "(sizeof)")[1] // 8) * units(t)


# ------------------------------------------------------------------------------------------------
# Lean output of expressions / statements  (python side: nested tuples -> strings)
# ------------------------------------------------------------------------------------------------
def L_lit(v):
    return "(.lit %s)" % (("(%d)" % v) if v < 0 else str(v))


def L_var(x):
    return '(.var "%s")' % x


def L_bin(op, ty, a, b):
    return "(.bin .%s %s %s %s)" % (op, ty_lean(ty), a, b)


def L_un(op, ty, a):
    return "(.un .%s %s %s)" % (op, ty_lean(ty), a)


def L_cast(ty, a):
    return "(.cast %s %s)" % (ty_lean(ty), a)


def L_load(a, i):
    return '(.load "%s" %s)' % (a, i)


BINOPS = {"+": "add", "-": "sub", "*": "mul", "/": "div", "%": "mod", "&": "band", "|": "bor", "^": "bxor",
          "<<": "shl", ">>": "shr", "==": "eq", "!=": "ne", "<": "lt", "<=": "le", ">": "gt", ">=": "ge"}
CMP = {"==", "!=", "<", "<=", ">", ">="}
I32 = ("true", 32)
U64 = ("false", 64)


def line_of(n):
    r = n.get("range", {}).get("begin", {})
    r = r.get("expansionLoc", r)
    return r.get("line")


class FunTr:
    """translation of one function under one call SHAPE (see the docstring: sub-array passing / aliasing / labels)"""

    def __init__(self, world, unit, decl, name, clone, shape, base_spec):
        self.world = world
        self.unit = unit
        self.decl = decl
        self.name = name         # the C name asked for (private/quirks.h renames some functions to _sodium_<name>)
        self.clone = clone       # the MiniC name: C name + shape suffix
        self.shape = shape
        self.base_spec = base_spec
        self.params, self.arr_params, self.off_params = [], [], []
        self.alias = {}          # pointer local / parameter -> (base, offset variable or None, pointee type)
        self.rename = {}         # MiniC array name -> the array it is merged with (aliased arguments)
        self.pub_arrays = set()  # MiniC arrays known (from the labelling) to have Public contents
        self.ptr_params = set()
        self.ptr_locals = {}     # declared pointer locals without initialiser -> assigned yet?
        self.mutable = set()     # pointer variables that are advanced (`p += e`, `p++`, `p = p + e`)
        self.int_vars = {}       # name -> ty
        self.declared = set()
        self.tmp = 0
        self.callees = []
        self.null_params = []
        self.global_arrays = []  # (name, values)
        self.const_arrays = set()
        self.init_stmts = []
        self.dn = {}             # clang declaration id -> MiniC name (locals declared more than once)
        self.last_line = None

    def refuse(self, what, node=None):
        ln = line_of(node) if node else None
        if ln:
            self.last_line = ln
        raise Refuse("%s: %s (function %s, near line %s of %s)" % ("unsupported construct", what, self.name, self.last_line, self.unit.rel))

    def A(self, name):
        return self.rename.get(name, name)

    def fields(self, t):
        return self.unit.ast.struct_fields(t)

    def expand(self, base, t):
        """MiniC arrays (unrenamed) that make up an object / pointer target of (element) type t named base"""
        fs = self.fields(scalar_of(t))
        if fs is None:
            return [base]
        return [base + "." + f for f, _ in fs]

    # ----- declarations
    def declare(self, name, node):
        if name in self.declared:
            self.refuse("second declaration of the name `%s` (shadowing)" % name, node)
        self.declared.add(name)

    def declare_local(self, d):
        """a local declared a second time (sibling or nested scope) gets a fresh MiniC name; references go by clang's declaration id"""
        name = d["name"]
        if name in self.declared:
            k = 2
            while "%s__%d" % (name, k) in self.declared:
                k += 1
            name = "%s__%d" % (name, k)
        self.declared.add(name)
        self.dn[d["id"]] = name
        return name

    def rn(self, ref):
        rd = ref["referencedDecl"]
        return self.dn.get(rd.get("id"), rd["name"])

    def prescan_mutable(self, body):
        def target(n):
            while n.get("kind") == "ParenExpr":
                n = n["inner"][0]
            if n.get("kind") == "DeclRefExpr" and is_ptr(tstr(n)):
                return self.rn(n)
            return None

        def walk(n):
            k = n.get("kind")
            if k == "CompoundAssignOperator" or (k == "UnaryOperator" and n.get("opcode") in ("++", "--")):
                nm = target(n["inner"][0])
                if nm:
                    self.mutable.add(nm)
            if k == "BinaryOperator" and n.get("opcode") == "=":
                nm = target(n["inner"][0])
                if nm and self.count_refs(n["inner"][1], nm) > 0:
                    self.mutable.add(nm)
            for c in n.get("inner", []):
                walk(c)
        walk(body)

    def header(self):
        sh = self.shape
        allnames, j = [], 0
        spec_pubarr = list(self.base_spec.get("pubarr", []))
        for c in self.decl.get("inner", []):
            if c.get("kind") == "ParmVarDecl":
                nm = c.get("name")
                if nm is None:
                    if tstr(c) == "void":
                        continue
                    self.refuse("unnamed parameter", c)
                t = tstr(c)
                self.declare(nm, c)
                if is_ptr(t) or is_arr(t):
                    pt = pointee(t)
                    if is_ptr(pt) or "(" in pt:
                        self.refuse("parameter `%s` of type `%s`" % (nm, t), c)
                    if pt != "void" and self.fields(scalar_of(pt)) is None:
                        int_ty(scalar_of(pt), "(element type of `%s`)" % nm)
                    ent = sh[j] if sh else None
                    exp = self.expand(nm, pt)
                    for i, e in enumerate(exp):
                        rep, pub = (ent[1][i] if ent else (-1, False))
                        if rep >= 0:
                            self.rename[e] = allnames[rep]
                        else:
                            self.arr_params.append(e)
                        if pub:
                            self.pub_arrays.add(self.rename.get(e, e))
                        allnames.append(self.rename.get(e, e))
                    offv = None
                    if ent and ent[0]:
                        offv = nm + "__off"
                        self.off_params.append(offv)
                        self.int_vars[offv] = U64
                    elif nm in self.mutable:
                        offv = nm + "__off"
                        self.int_vars[offv] = U64
                        self.init_stmts.append('.assign "%s" (.lit 0)' % offv)
                    self.ptr_params.add(nm)
                    self.alias[nm] = (nm, offv, pt)
                    j += 1
                else:
                    self.int_vars[nm] = int_ty(t, "(parameter `%s`)" % nm)
                    self.params.append(nm)
        self.params += self.off_params
        for a in spec_pubarr:
            self.pub_arrays.add(self.A(a))
        rt = strip_quals(self.decl["type"]["qualType"].split("(")[0])
        self.ret_ptr = is_ptr(rt)
        self.ret_void = rt == "void"

    def spec(self):
        b = self.base_spec
        pub = [p for p in b.get("pub", [])] + self.off_params
        pa = []
        for a in list(b.get("pubarr", [])) + sorted(self.pub_arrays):
            a = self.A(a)
            if a not in pa and (a in self.arr_params or a in [g[0] for g in self.global_arrays]):
                pa.append(a)
        return dict(pub=pub, pubarr=pa, ret=b.get("ret", False))

    # ----- locations and pointers:  (base, offset expression or None, type of the designated object)
    def scale(self, e, k):
        if e is None or k == 1:
            return e
        return L_bin("mul", U64, e, L_lit(k))

    def add_off(self, o, op, i):
        if o is None:
            if op == "add":
                return i
            return L_bin("sub", U64, L_lit(0), i)
        return L_bin(op, U64, o, i)

    def idx_u64(self, n, cx):
        e = self.expr(n, cx)
        t = int_ty(tstr(n), "(index)")
        return e if t == U64 else L_cast(U64, e)

    def check_cast(self, old, new, node):
        """a pointer cast must keep the element size (void * keeps the old pointee)"""
        if new == "void":
            return old
        if old == "void":
            return new
        so, sn = scalar_of(old), scalar_of(new)
        if self.fields(so) is not None or self.fields(sn) is not None:
            if so != sn:
                self.refuse("pointer cast between `%s` and `%s`" % (old, new), node)
            return new
        if sizeof_t(so) != sizeof_t(sn):
            self.refuse("pointer cast changing the element size (%s vs %s)" % (old, new), node)
        if units(old) != units(new) and (is_arr(old) or is_arr(new)):
            self.refuse("pointer cast changing the array shape (%s vs %s)" % (old, new), node)
        return new

    def loc(self, n, cx):
        k = n.get("kind")
        if k == "ParenExpr":
            return self.loc(n["inner"][0], cx)
        if k == "DeclRefExpr":
            nm = self.rn(n)
            rk = n["referencedDecl"]["kind"]
            t = tstr(n)
            if rk not in ("VarDecl",) or is_ptr(t):
                self.refuse("reference to `%s` used as an object" % nm, n)
            if nm not in self.declared:
                self.import_global(nm, n)
            if self.fields(scalar_of(t)) is not None:
                return nm, None, t          # struct base: field arrays are named at the member access
            if not is_arr(t):
                self.refuse("address of the scalar variable `%s`" % nm, n)
            return self.A(nm), None, t
        if k == "ArraySubscriptExpr":
            b, o, pt = self.ptr(n["inner"][0], cx)
            if o is None and units(pt) == 1:
                return b, self.expr(n["inner"][1], cx), pt      # whole array, plain index: in the index's own type
            i = self.idx_u64(n["inner"][1], cx)
            return b, self.add_off(o, "add", self.scale(i, units(pt))), pt
        if k == "MemberExpr":
            s = n["inner"][0]
            if n.get("isArrow"):
                sb, so, st = self.ptr(s, cx)
            else:
                sb, so, st = self.loc(s, cx)
            fs = self.fields(scalar_of(st))
            if fs is None or is_arr(st):
                self.refuse("member access on type `%s`" % st, n)
            ft = dict(fs).get(n.get("name"))
            if ft is None:
                self.refuse("unknown member `%s`" % n.get("name"), n)
            if self.fields(scalar_of(ft)) is not None or is_ptr(ft):
                self.refuse("member `%s` of type `%s` (nested struct / pointer member)" % (n.get("name"), ft), n)
            return self.A(sb + "." + n["name"]), self.scale(so, units(ft)), ft
        if k == "UnaryOperator" and n.get("opcode") == "*":
            return self.ptr(n["inner"][0], cx)
        if k in ("ImplicitCastExpr", "CStyleCastExpr") and n.get("castKind") == "NoOp":
            return self.loc(n["inner"][0], cx)
        self.refuse("lvalue of kind %s" % k, n)

    def ptr(self, n, cx):
        """pointer-valued expression -> (base, offset expr string or None, pointee type)"""
        k = n.get("kind")
        if k in ("ParenExpr",):
            return self.ptr(n["inner"][0], cx)
        if k in ("ImplicitCastExpr", "CStyleCastExpr"):
            ck = n.get("castKind")
            s = n["inner"][0]
            if ck == "ArrayToPointerDecay":
                b, o, t = self.loc(s, cx)
                return b, o, pointee(t)
            if ck == "LValueToRValue":
                while s.get("kind") == "ParenExpr":
                    s = s["inner"][0]
                if s.get("kind") != "DeclRefExpr":
                    self.refuse("pointer read from an lvalue of kind %s" % s.get("kind"), n)
                return self.ptrvar(s)
            if ck == "NoOp":
                return self.ptr(s, cx)
            if ck == "BitCast":
                b, o, pt = self.ptr(s, cx)
                return b, o, self.check_cast(pt, pointee(tstr(n)), n)
            self.refuse("pointer cast of kind %s" % ck, n)
        if k == "DeclRefExpr":
            return self.ptrvar(n)
        if k == "UnaryOperator" and n.get("opcode") == "&":
            s = n["inner"][0]
            b, o, t = self.loc(s, cx)
            return b, o, t
        if k == "BinaryOperator" and n.get("opcode") in ("+", "-"):
            l, r = n["inner"]
            if is_ptr(tstr(l)) or is_arr(tstr(l)):
                b, o, pt = self.ptr(l, cx)
                return b, self.add_off(o, "add" if n["opcode"] == "+" else "sub", self.scale(self.idx_u64(r, cx), units(pt))), pt
            if n["opcode"] == "+":
                b, o, pt = self.ptr(r, cx)
                return b, self.add_off(o, "add", self.scale(self.idx_u64(l, cx), units(pt))), pt
        self.refuse("pointer expression of kind %s" % k, n)

    def ptrvar(self, n):
        nm = self.rn(n)
        if nm in self.alias:
            b, o, pt = self.alias[nm]
            if self.fields(scalar_of(pt)) is None:
                b = self.A(b)
            return b, (L_var(o) if o else None), pt
        if nm in self.ptr_locals:
            self.refuse("use of pointer `%s` before its (single, top-level) assignment" % nm, n)
        self.refuse("pointer expression referring to `%s`" % nm, n)

    # ----- constant data
    def import_global(self, nm, node):
        g = self.unit.ast.globals.get(nm)
        if g is None:
            self.refuse("file-scope object `%s` not found" % nm, node)
        t = tstr(g)
        if not is_arr(t) or "const" not in (g["type"].get("qualType", "") + g["type"].get("desugaredQualType", "")):
            self.refuse("file-scope object `%s` of type `%s` (only const arrays with a literal initialiser)" % (nm, t), node)
        self.declare(nm, node)
        for name, vals in self.flat_init(nm, g, t, node):
            self.global_arrays.append((name, vals))
            self.const_arrays.add(name)

    def init_children(self, il):
        if "array_filler" in il:
            return [c for c in il["array_filler"] if c.get("kind") != "ImplicitValueInitExpr"]
        return il.get("inner", [])

    def flat_init(self, nm, vardecl, t, node):
        """[(MiniC array name, values)] for an object of type t with clang initialiser (zeros if none)"""
        sc = scalar_of(t)
        fs = self.fields(sc)
        out = {}
        names = [nm] if fs is None else [nm + "." + f for f, _ in fs]
        for x in names:
            out[x] = []

        def zero(t1, pre):
            b, dims = split_arr(t1)
            f1 = self.fields(b)
            if f1 is None:
                out[pre] += [0] * units(t1)
            else:
                for _ in range(units(t1)):
                    for f, ft in f1:
                        zero(ft, pre + "." + f)

        def go(n, t1, pre):
            while n.get("kind") in ("ParenExpr",) or (n.get("kind") in ("ImplicitCastExpr", "CStyleCastExpr", "ConstantExpr") and not is_scalar(t1)):
                n = n["inner"][0]
            b, dims = split_arr(t1)
            if dims:
                if n.get("kind") == "ImplicitValueInitExpr":
                    return zero(t1, pre)
                if n.get("kind") != "InitListExpr":
                    self.refuse("array initialiser of kind %s" % n.get("kind"), node)
                et = b + "".join("[%d]" % d for d in dims[1:])
                ch = self.init_children(n)
                for c in ch:
                    go(c, et, pre)
                for _ in range(dims[0] - len(ch)):
                    zero(et, pre)
                return
            f1 = self.fields(b)
            if f1 is not None:
                if n.get("kind") == "ImplicitValueInitExpr":
                    return zero(t1, pre)
                if n.get("kind") != "InitListExpr":
                    self.refuse("struct initialiser of kind %s" % n.get("kind"), node)
                ch = n.get("inner", [])
                for i, (f, ft) in enumerate(f1):
                    if i < len(ch):
                        go(ch[i], ft, pre + "." + f)
                    else:
                        zero(ft, pre + "." + f)
                return
            if n.get("kind") == "ImplicitValueInitExpr":
                out[pre].append(0)
            else:
                out[pre].append(wrap(int_ty(b), self.const(n, node)))

        def is_scalar(t1):
            return not split_arr(t1)[1] and self.fields(split_arr(t1)[0]) is None
        inner = [c for c in vardecl.get("inner", []) if c.get("kind") and not c.get("kind", "").endswith("Attr")]
        if not inner:
            zero(t, nm)
        else:
            go(inner[0], t, nm)
        return [(x, out[x]) for x in names]

    def const(self, n, node):
        v = self.const_eval(n)
        if v is None:
            self.refuse("non-literal array initialiser element (%s)" % n.get("kind"), node)
        return v

    def const_eval(self, n):
        """value of an integer constant expression, or None"""
        k = n.get("kind")
        if k in ("IntegerLiteral", "CharacterLiteral"):
            return int(n["value"])
        if k == "ConstantExpr" and "value" in n:
            return int(n["value"])
        if k == "DeclRefExpr" and n.get("referencedDecl", {}).get("kind") == "EnumConstantDecl":
            return self.unit.ast.enums.get(self.rn(n))
        if k in ("ImplicitCastExpr", "CStyleCastExpr", "ParenExpr", "ConstantExpr"):
            if n.get("castKind") not in (None, "IntegralCast", "NoOp"):
                return None
            v = self.const_eval(n["inner"][0])
            if v is None:
                return None
            if k in ("ImplicitCastExpr", "CStyleCastExpr"):
                try:
                    v = wrap(int_ty(tstr(n)), v)
                except Refuse:
                    return None
            return v
        if k == "UnaryExprOrTypeTraitExpr" and n.get("name") == "sizeof":
            try:
                if "argType" in n:
                    at = n["argType"]
                    return self.sizeof(at.get("desugaredQualType") or at["qualType"], n)
                return self.sizeof(tstr(n["inner"][0]), n)
            except Refuse:
                return None
        if k == "UnaryOperator" and n.get("opcode") in ("-", "~", "+"):
            v = self.const_eval(n["inner"][0])
            if v is None:
                return None
            v = {"-": -v, "~": ~v, "+": v}[n["opcode"]]
            return wrap(int_ty(tstr(n)), v)
        if k == "BinaryOperator" and n.get("opcode") in ("+", "-", "*", "/", "<<", ">>", "&", "|", "^", "%"):
            a, b = self.const_eval(n["inner"][0]), self.const_eval(n["inner"][1])
            if a is None or b is None:
                return None
            op = n["opcode"]
            if op in ("/", "%") and (b == 0 or a < 0 or b < 0):
                return None
            v = {"+": a + b, "-": a - b, "*": a * b, "/": a // b if b else 0, "%": a % b if b else 0, "<<": a << b if 0 <= b < 128 else 0,
                 ">>": a >> b if 0 <= b < 128 else 0, "&": a & b, "|": a | b, "^": a ^ b}[op]
            try:
                return wrap(int_ty(tstr(n)), v)
            except Refuse:
                return None
        return None

    def sizeof(self, t, node):
        t = strip_quals(t)
        fs = self.fields(scalar_of(t)) if not is_ptr(t) else None
        if fs is not None:
            self.refuse("sizeof of the struct type `%s` used as a value" % t, node)
        return sizeof_t(t)

    # ----- expressions
    def count_refs(self, n, name):
        c = 0
        if n.get("kind") == "DeclRefExpr" and "referencedDecl" in n and self.rn(n) == name:
            c += 1
        for ch in n.get("inner", []):
            c += self.count_refs(ch, name)
        return c

    def lval_read(self, n, cx):
        """read of an lvalue node"""
        k = n.get("kind")
        if k == "ParenExpr":
            return self.lval_read(n["inner"][0], cx)
        if k == "DeclRefExpr":
            nm = self.rn(n)
            rk = n["referencedDecl"]["kind"]
            if rk == "EnumConstantDecl":
                self.refuse("enum constant `%s`" % nm, n)
            t = tstr(n)
            if is_ptr(t) or is_arr(t):
                self.refuse("pointer `%s` used as a value" % nm, n)
            int_ty(t, "(variable `%s`)" % nm)
            if nm not in self.declared:
                # file-scope scalar (e.g. `optblocker_u16`): static storage, read as a variable
                if rk != "VarDecl":
                    self.refuse("reference to `%s`" % nm, n)
                self.unit.notes.add("%s reads the file-scope variable `%s` (modelled as a variable that is 0 unless assigned)" % (self.name, nm))
            return L_var(nm)
        if k in ("ArraySubscriptExpr", "MemberExpr") or (k == "UnaryOperator" and n.get("opcode") == "*"):
            b, o, t = self.loc(n, cx)
            if is_arr(t) or self.fields(t) is not None:
                self.refuse("read of an aggregate of type `%s`" % t, n)
            int_ty(t, "(loaded element)")
            return L_load(b, o if o is not None else L_lit(0))
        self.refuse("lvalue of kind %s" % k, n)

    def expr(self, n, cx):
        k = n.get("kind")
        ln = line_of(n)
        if ln:
            self.last_line = ln
        if k == "ParenExpr":
            return self.expr(n["inner"][0], cx)
        if k == "ConstantExpr":
            if "value" in n:
                return L_lit(int(n["value"]))
            return self.expr(n["inner"][0], cx)
        if k == "IntegerLiteral":
            return L_lit(wrap(int_ty(tstr(n)), int(n["value"])))
        if k == "CharacterLiteral":
            return L_lit(int(n["value"]))
        if k in ("ImplicitCastExpr", "CStyleCastExpr"):
            ck = n.get("castKind")
            s = n["inner"][0]
            if ck == "LValueToRValue":
                return self.lval_read(s, cx)
            if ck == "NoOp":
                return self.expr(s, cx)
            if ck == "IntegralCast":
                ty = int_ty(tstr(n), "(cast)")
                if s.get("kind") == "IntegerLiteral":
                    return L_lit(wrap(ty, int(s["value"])))
                return L_cast(ty, self.expr(s, cx))
            if ck == "IntegralToBoolean":
                return L_bin("ne", I32, self.expr(s, cx), L_lit(0))
            self.refuse("cast of kind %s to `%s`" % (ck, tstr(n)), n)
        if k == "UnaryExprOrTypeTraitExpr":
            if n.get("name") != "sizeof":
                self.refuse(n.get("name"), n)
            if "argType" in n:
                at = n["argType"]
                return L_lit(self.sizeof(at.get("desugaredQualType") or at["qualType"], n))
            return L_lit(self.sizeof(tstr(n["inner"][0]), n))
        if k == "UnaryOperator":
            op = n.get("opcode")
            s = n["inner"][0]
            if op == "+":
                return self.expr(s, cx)
            if op == "__extension__":
                return self.expr(s, cx)
            if op == "-":
                return L_un("neg", int_ty(tstr(n)), self.expr(s, cx))
            if op == "~":
                return L_un("bnot", int_ty(tstr(n)), self.expr(s, cx))
            if op == "!":
                if is_ptr(tstr(s)):
                    return self.null_test(s, "==", n)
                return L_un("lnot", I32, self.expr(s, cx))
            if op in ("++", "--"):
                return self.incdec(n, cx, as_stmt=False)
            if op == "*":
                self.refuse("`*p` outside a load/store position", n)
            self.refuse("unary operator `%s`" % op, n)
        if k == "BinaryOperator":
            op = n.get("opcode")
            l, r = n["inner"]
            if op in ("&&", "||"):
                sub = dict(cx, nohoist="under && / ||")
                a = self.cond_val(l, sub)
                b = self.cond_val(r, sub)
                return "(.%s %s %s)" % ("land" if op == "&&" else "lor", a, b)
            if op == "=":
                # chained assignment `a = b = e`: the inner assignment is hoisted, its value is the (converted) value stored
                if cx.get("nohoist"):
                    self.refuse("assignment %s" % cx["nohoist"], n)
                ll = l
                while ll.get("kind") == "ParenExpr":
                    ll = ll["inner"][0]
                if ll.get("kind") != "DeclRefExpr" or is_ptr(tstr(ll)):
                    self.refuse("assignment to something else than a local variable in expression position", n)
                rv = self.expr(r, cx)
                cx["pre"] += self.assign_to(ll, lambda rd: rv, cx, n)
                return L_var(self.rn(ll))
            if op in CMP and (is_ptr(tstr(l)) or is_ptr(tstr(r))):
                return self.null_cmp(l, r, op, n, cx)
            if op == "-" and is_ptr(tstr(l)) and is_ptr(tstr(r)):
                b1, o1, t1 = self.ptr(l, cx)
                b2, o2, t2 = self.ptr(r, cx)
                if b1 != b2 or units(t1) != 1:
                    self.refuse("difference of pointers into different arrays", n)
                return L_cast(int_ty(tstr(n)), L_bin("sub", U64, o1 or L_lit(0), o2 or L_lit(0)))
            if op in BINOPS:
                if is_ptr(tstr(n)) or is_ptr(tstr(l)) or is_ptr(tstr(r)):
                    self.refuse("pointer arithmetic used as a value", n)
                ty = I32 if op in CMP else int_ty(tstr(n), "(operator %s)" % op)
                return L_bin(BINOPS[op], ty, self.expr(l, cx), self.expr(r, cx))
            self.refuse("binary operator `%s` in expression position" % op, n)
        if k == "ConditionalOperator":
            c, a, b = n["inner"]
            sub = dict(cx, nohoist="under ?:")
            return "(.cond %s %s %s)" % (self.cond_val(c, sub), self.expr(a, sub), self.expr(b, sub))
        if k == "CallExpr":
            if cx.get("nohoist"):
                self.refuse("function call %s" % cx["nohoist"], n)
            self.tmp += 1
            t = "call%d__" % self.tmp
            cx["pre"] += self.call(n, t, cx)
            return L_var(t)
        if k == "DeclRefExpr":
            rd = n.get("referencedDecl", {})
            if rd.get("kind") == "EnumConstantDecl" and rd.get("name") in self.unit.ast.enums:
                return L_lit(self.unit.ast.enums[rd["name"]])
            self.refuse("reference to `%s` without lvalue conversion" % rd.get("name"), n)
        if k == "CompoundAssignOperator":
            # `(x op= e)` used as a value (e.g. `if ((count += n) < n)`): the update is hoisted, the value is x re-read
            if cx.get("nohoist"):
                self.refuse("compound assignment %s" % cx["nohoist"], n)
            cx["pre"] += self.expr_stmt(n, False)
            self.unit.notes.add("a compound assignment used as a value is hoisted and its lvalue re-read")
            return self.lval_read(n["inner"][0], cx)
        self.refuse("expression of kind %s" % k, n)

    def cond_val(self, n, cx):
        if is_ptr(tstr(n)):
            return self.null_test(n, "!=", n)
        return self.expr(n, cx)

    def is_null(self, n):
        while n.get("kind") in ("ParenExpr", "ImplicitCastExpr", "CStyleCastExpr"):
            if n.get("castKind") == "NullToPointer":
                return True
            n = n["inner"][0]
        return False

    def null_cmp(self, l, r, op, node, cx):
        if self.is_null(r) and op in ("==", "!="):
            return self.null_test(l, op, node)
        if self.is_null(l) and op in ("==", "!="):
            return self.null_test(r, op, node)
        # two pointers into the same array: compare the offsets (addresses are Public, so is the comparison's trace-free result)
        b1, o1, t1 = self.ptr(l, cx)
        b2, o2, t2 = self.ptr(r, cx)
        if b1 != b2:
            self.refuse("comparison of pointers into different arrays", node)
        return L_bin(BINOPS[op], I32, o1 or L_lit(0), o2 or L_lit(0))

    def null_test(self, p, op, node):
        while p.get("kind") in ("ParenExpr", "ImplicitCastExpr", "CStyleCastExpr"):
            p = p["inner"][0]
        if p.get("kind") != "DeclRefExpr" or self.rn(p) not in self.ptr_params:
            self.refuse("NULL test of something else than a pointer parameter", node)
        if self.rn(p) in self.mutable:
            self.refuse("NULL test of a pointer parameter that is advanced", node)
        v = self.rn(p) + "__isnull"
        if v not in self.null_params:
            self.null_params.append(v)
        # p == NULL  <->  isnull != 0
        return L_bin("ne" if op == "==" else "eq", I32, L_var(v), L_lit(0))

    def incdec(self, n, cx, as_stmt):
        op = n["opcode"]
        s = n["inner"][0]
        while s.get("kind") == "ParenExpr":
            s = s["inner"][0]
        if s.get("kind") != "DeclRefExpr":
            if as_stmt:
                cx2 = self.new_cx(n)
                ty = int_ty(tstr(s))
                return self.wrapcx(cx2, self.assign_to(s, lambda rd: L_bin("add" if op == "++" else "sub", ty, rd(), L_lit(1)), cx2, n))
            self.refuse("`%s` applied to something else than a local variable" % op, n)
        nm = self.rn(s)
        t = tstr(s)
        if is_ptr(t):
            if not as_stmt:
                self.refuse("`%s` on the pointer `%s` inside an expression" % (op, nm), n)
            return self.ptr_advance(nm, "add" if op == "++" else "sub", L_lit(1), n)
        ty = int_ty(t)
        if nm not in self.declared:
            self.refuse("`%s` on the non-local `%s`" % (op, nm), n)
        upd = '.assign "%s" %s' % (nm, L_bin("add" if op == "++" else "sub", ty, L_var(nm), L_lit(1)))
        if as_stmt:
            return [upd]
        if cx.get("nohoist"):
            self.refuse("`%s%s` %s" % (nm, op, cx["nohoist"]), n)
        if self.count_refs(cx["full"], nm) != 1:
            self.refuse("`%s%s` in an expression that mentions `%s` again" % (nm, op, nm), n)
        (cx["post"] if n.get("isPostfix") else cx["pre"]).append(upd)
        return L_var(nm)

    def ptr_advance(self, nm, op, amount, node):
        if nm not in self.alias or self.alias[nm][1] is None:
            self.refuse("advance of the pointer `%s` (not bound to an array yet)" % nm, node)
        b, o, pt = self.alias[nm]
        return ['.assign "%s" %s' % (o, L_bin(op, U64, L_var(o), self.scale(amount, units(pt))))]

    # ----- calls
    def callee_name(self, n):
        f = n["inner"][0]
        while f.get("kind") in ("ImplicitCastExpr", "ParenExpr"):
            f = f["inner"][0]
        if f.get("kind") == "DeclRefExpr" and f["referencedDecl"].get("kind") == "VarDecl" and f["referencedDecl"]["name"] in FUNPTR_PINS:
            tgt = FUNPTR_PINS[f["referencedDecl"]["name"]]
            self.unit.notes.add("the indirect call through the file-scope function pointer `%s` is resolved to `%s` (the portable implementation it is initialised with)" % (f["referencedDecl"]["name"], tgt))
            return tgt, ""
        if f.get("kind") != "DeclRefExpr" or f["referencedDecl"].get("kind") != "FunctionDecl":
            self.refuse("indirect call", n)
        return f["referencedDecl"]["name"], f["type"]["qualType"]

    def scalar_addr(self, a):
        """`&w` for an integer variable w (possibly under casts) -> (name, ty) or None"""
        while a.get("kind") in ("ParenExpr", "ImplicitCastExpr", "CStyleCastExpr"):
            a = a["inner"][0]
        if a.get("kind") == "UnaryOperator" and a.get("opcode") == "&":
            s = a["inner"][0]
            while s.get("kind") == "ParenExpr":
                s = s["inner"][0]
            if s.get("kind") == "DeclRefExpr" and not is_arr(tstr(s)) and not is_ptr(tstr(s)) and tstr(s) in INT_TYPES:
                return self.rn(s), int_ty(tstr(s))
        return None

    def fresh(self, stem):
        self.tmp += 1
        return "%s%d__" % (stem, self.tmp)

    def intrinsic(self, name, n, dst, cx):
        """libc memory primitives, inlined as element loops (documented normalisation)"""
        args = n["inner"][1:]
        if name in ("memcpy", "memmove", "__builtin_memcpy"):
            d, s, cnt = args
            da, sa = self.scalar_addr(d), self.scalar_addr(s)
            nb = self.const_eval(cnt)
            if da or sa:
                # little-endian (x86-64) load / store of an integer variable from / to a byte array
                (w, ty) = da or sa
                if nb is None or nb * 8 != ty[1]:
                    self.refuse("memcpy to/from the address of `%s` with a size that is not its size" % w, n)
                b, o, pt = self.ptr(s if da else d, cx)
                if is_arr(pt) or self.fields(pt) is not None or sizeof_t(pt) != 1:
                    self.refuse("memcpy between an integer variable and a non-byte array", n)
                self.unit.notes.add("memcpy between an integer variable and a byte array is the little-endian load / store of x86-64")
                if da:
                    e = None
                    for i in range(nb):
                        t = L_cast(ty, L_load(b, self.add_off(o, "add", L_lit(i))))
                        if i:
                            t = L_bin("shl", ty, t, L_lit(8 * i))
                        e = t if e is None else L_bin("bor", ty, e, t)
                    return ['.assign "%s" %s' % (w, e)]
                if b in self.const_arrays:
                    self.refuse("store into the constant array `%s`" % b, n)
                return ['.store "%s" %s %s' % (b, self.add_off(o, "add", L_lit(i)), L_cast(("false", 8), L_bin("shr", ty, L_var(w), L_lit(8 * i))))
                        for i in range(nb)]
            b1, o1, t1 = self.ptr(d, cx)
            b2, o2, t2 = self.ptr(s, cx)
            if self.fields(scalar_of(t1)) is not None or self.fields(scalar_of(t2)) is not None:
                if scalar_of(t1) != scalar_of(t2) or not self.is_sizeof_of(cnt, scalar_of(t1)):
                    self.refuse("memcpy of structs that is not `sizeof` one struct", n)
                out = []
                for f, ft in self.fields(scalar_of(t1)):
                    out += self.copy_loop(self.A(b1 + "." + f), self.scale(o1, units(ft)), self.A(b2 + "." + f), self.scale(o2, units(ft)), L_lit(units(ft)), None, name == "memmove")
                return out
            s1, s2 = sizeof_t(scalar_of(t1)), sizeof_t(scalar_of(t2))
            if s1 != s2:
                self.refuse("memcpy between arrays of different element sizes (%s, %s)" % (t1, t2), n)
            c = self.count_expr(cnt, s1, cx, n)
            return self.copy_loop(b1, o1, b2, o2, c, None, name == "memmove")
        if name in ("memset", "sodium_memzero", "explicit_bzero", "__builtin_memset"):
            if name in ("memset", "__builtin_memset"):
                d, v, cnt = args
                cv = self.const_eval(v)
            else:
                d, cnt = args
                cv = 0
            b1, o1, t1 = self.ptr(d, cx)
            if name == "sodium_memzero":
                self.unit.notes.add("sodium_memzero / memset / memcpy (libc) are modelled as element-wise loops over the Public length")
            fs = self.fields(scalar_of(t1))
            if fs is not None:
                if cv != 0 or not self.is_sizeof_of(cnt, t1):
                    self.refuse("memset of a struct that is not zeroing `sizeof` the struct", n)
                out = []
                for f, ft in fs:
                    tot = units(ft) * units(t1)
                    out += self.copy_loop(self.A(b1 + "." + f), self.scale(o1, units(ft)), None, None, L_lit(tot), L_lit(0), False)
                return out
            s1 = sizeof_t(scalar_of(t1))
            if s1 != 1 and cv != 0:
                self.refuse("memset of a non-byte array with a non-zero / non-constant value", n)
            val = L_lit(cv) if cv is not None else L_cast(("false", 8), self.expr(v, cx))
            return self.copy_loop(b1, o1, None, None, self.count_expr(cnt, s1, cx, n), val, False)
        self.refuse("call of `%s`" % name, n)

    def is_sizeof_of(self, cnt, t):
        while cnt.get("kind") in ("ParenExpr", "ImplicitCastExpr", "CStyleCastExpr", "ConstantExpr"):
            cnt = cnt["inner"][0]
        if cnt.get("kind") != "UnaryExprOrTypeTraitExpr" or cnt.get("name") != "sizeof":
            return False
        if "argType" in cnt:
            at = cnt["argType"]
            st = strip_quals(at.get("desugaredQualType") or at["qualType"])
        else:
            st = tstr(cnt["inner"][0])
        if st.startswith("struct "):
            st = st[7:]
        t = strip_quals(t)
        if t.startswith("struct "):
            t = t[7:]
        return st == t

    def count_expr(self, cnt, esz, cx, node):
        nb = self.const_eval(cnt)
        if nb is not None:
            if nb % esz:
                self.refuse("byte count %d is not a multiple of the element size %d" % (nb, esz), node)
            return L_lit(nb // esz)
        if esz != 1:
            self.refuse("non-constant byte count over an array of %d-byte elements" % esz, node)
        return self.idx_u64(cnt, cx)

    def copy_loop(self, b1, o1, b2, o2, cnt, val, backward_safe):
        if b1 in self.const_arrays:
            raise Refuse("store into the constant array `%s` (function %s)" % (b1, self.name))
        i = self.fresh("mem_i")
        self.int_vars[i] = U64
        src = val if b2 is None else L_load(b2, self.add_off(o2, "add", L_var(i)))
        if backward_safe and b1 == b2:
            raise Refuse("memmove within the same array (function %s)" % self.name)
        return ['.assign "%s" (.lit 0)' % i,
                '.while %s\n%s' % (L_bin("lt", I32, L_var(i), cnt), indent(par(self.block([
                    '.store "%s" %s %s' % (b1, self.add_off(o1, "add", L_var(i)), src),
                    '.assign "%s" %s' % (i, L_bin("add", U64, L_var(i), L_lit(1)))]))))]

    def call(self, n, dst, cx):
        """-> list of statements"""
        name, fty = self.callee_name(n)
        if name in NORETURN or "noreturn" in fty:
            return [".abort"]
        if name in INTRINSICS:
            return self.intrinsic(name, n, dst, cx)
        if name in NOOPS:
            return []
        if name.startswith("_sodium_") and name not in CALLEE_SPECS:
            name = name[8:]       # private/quirks.h renames some exported-looking internals to _sodium_<name>
        decl, dunit = self.world.find_decl(name, self.unit)
        if decl is None:
            self.refuse("call of `%s`, which has no body in this file nor in the files listed in SEARCH_FILES" % name, n)
        formals = [c for c in decl.get("inner", []) if c.get("kind") == "ParmVarDecl" and not (c.get("name") is None and tstr(c) == "void")]
        actuals = n["inner"][1:]
        if len(formals) != len(actuals):
            self.refuse("argument count mismatch in the call of %s" % name, n)
        args, offs, ents, names = [], [], [], []
        for f, a in zip(formals, actuals):
            ft = tstr(f)
            if is_ptr(ft) or is_arr(ft):
                fpt = pointee(ft)
                b, o, pt = self.ptr(a, cx)
                pt = self.check_cast(pt, fpt, n)
                fexp = self.expand("", fpt)
                aexp = [self.A(b + x) for x in fexp] if self.fields(scalar_of(fpt)) is not None else [b]
                arrs = []
                for x in aexp:
                    rep = names.index(x) if x in names else -1
                    arrs.append((rep, x in self.pub_arrays))
                    names.append(x)
                ents.append((o is not None, tuple(arrs)))
                if o is not None:
                    offs.append(o)
            else:
                args.append(self.expr(a, cx))
        shape = tuple(ents)
        callee = self.world.function(name, shape, decl, dunit, n, self)
        if callee.null_params:
            self.refuse("callee %s tests a pointer parameter for NULL" % name, n)
        passed = [x for i, x in enumerate(names) if names.index(x) == i]
        if len(passed) != len(callee.arr_params) or len(args) + len(offs) != len(callee.params):
            self.refuse("internal: argument shape mismatch in the call of %s" % name, n)
        for x in passed:
            if x in self.const_arrays and not callee.readonly(callee.arr_params[passed.index(x)]):
                self.refuse("constant array `%s` passed to %s, which stores into it" % (x, name), n)
        if callee.clone not in self.callees:
            self.callees.append(callee.clone)
        return ['.call %s "%s" [%s] [%s]' % ('(some "%s")' % dst if dst else "none", callee.clone, ", ".join(args + offs), ", ".join('"%s"' % a for a in passed))]

    def readonly(self, arr):
        return ('.store "%s"' % arr) not in self.body and self._ro_calls(arr)

    def _ro_calls(self, arr):
        # an array handed on to a callee is read-only if the callee does not store into the corresponding parameter
        for m in re.finditer(r'\.call (?:none|\(some "[^"]*"\)) "([^"]+)" \[[^\n]*?\] \[([^\]]*)\]', self.body):
            cal = self.world.funs.get(m.group(1))
            arrs = re.findall(r'"([^"]+)"', m.group(2))
            if cal and arr in arrs:
                if not cal.readonly(cal.arr_params[arrs.index(arr)]):
                    return False
        return True

    # ----- statements
    def new_cx(self, full, nohoist=None):
        return {"pre": [], "post": [], "full": full, "nohoist": nohoist}

    def wrapcx(self, cx, s):
        return cx["pre"] + s + cx["post"]

    def assign_to(self, lhs, rhs_of, cx, node):
        """lhs: lvalue node; rhs_of(read_lhs_thunk) -> value expr string"""
        while lhs.get("kind") == "ParenExpr":
            lhs = lhs["inner"][0]
        k = lhs.get("kind")
        if k == "DeclRefExpr":
            nm = self.rn(lhs)
            t = tstr(lhs)
            if is_ptr(t):
                self.refuse("assignment to the pointer `%s` (only one top-level assignment of a pointer local is allowed)" % nm, node)
            int_ty(t)
            if nm not in self.declared:
                self.refuse("assignment to the non-local `%s`" % nm, node)
            return ['.assign "%s" %s' % (nm, rhs_of(lambda: L_var(nm)))]
        if k in ("ArraySubscriptExpr", "UnaryOperator", "MemberExpr"):
            b, o, t = self.loc(lhs, cx)
            if is_arr(t) or self.fields(t) is not None:
                self.refuse("assignment to an aggregate of type `%s`" % t, node)
            int_ty(t)
            idx = o if o is not None else L_lit(0)
            if b in self.const_arrays:
                self.refuse("store into the constant array `%s`" % b, node)
            ld = L_load(b, idx)
            return ['.store "%s" %s %s' % (b, idx, rhs_of(lambda: ld))]
        self.refuse("assignment to an lvalue of kind %s" % k, node)

    def try_ptr_assign(self, n, toplevel):
        """`p = <pointer expression>` for a declared pointer local / an advanced pointer"""
        l, r = n["inner"]
        while l.get("kind") == "ParenExpr":
            l = l["inner"][0]
        if l.get("kind") == "DeclRefExpr" and is_ptr(tstr(l)):
            nm = self.rn(l)
            cx = self.new_cx(n, nohoist="in a pointer assignment")
            if nm in self.mutable and nm in self.alias and self.alias[nm][1] is not None:
                b0, o0, pt0 = self.alias[nm]
                b, o, pt = self.ptr(r, cx)
                if (self.A(b0) if self.fields(scalar_of(pt0)) is None else b0) != b:
                    self.refuse("re-assignment of the pointer `%s` to a different array" % nm, n)
                return ['.assign "%s" %s' % (o0, o if o is not None else L_lit(0))]
            if nm not in self.ptr_locals or self.ptr_locals[nm]:
                self.refuse("re-assignment of the pointer `%s`" % nm, n)
            if not toplevel:
                self.refuse("assignment of the pointer `%s` inside a loop or branch" % nm, n)
            return self.bind_ptr(nm, r, cx, n)
        return None

    def bind_ptr(self, nm, init, cx, node):
        b, o, pt = self.ptr(init, cx)
        pt = self.check_cast(pt, pointee(strip_quals(self.ptr_types[nm])), node)
        self.ptr_locals[nm] = True
        if o is None and nm not in self.mutable:
            self.alias[nm] = (b, None, pt)
            return []
        self.alias[nm] = (b, nm, pt)
        self.int_vars[nm] = U64
        return ['.assign "%s" %s' % (nm, o if o is not None else L_lit(0))]

    def expr_stmt(self, n, toplevel):
        """an expression used as a statement -> list of statement strings"""
        k = n.get("kind")
        ln = line_of(n)
        if ln:
            self.last_line = ln
        if k == "ParenExpr":
            return self.expr_stmt(n["inner"][0], toplevel)
        if k == "UnaryOperator" and n.get("opcode") == "__extension__":
            return self.expr_stmt(n["inner"][0], toplevel)
        if k == "StmtExpr":
            return self.stmt(n["inner"][0], False)
        if k == "BinaryOperator" and n.get("opcode") == ",":
            return self.expr_stmt(n["inner"][0], toplevel) + self.expr_stmt(n["inner"][1], toplevel)
        if k == "CStyleCastExpr" and n.get("castKind") == "ToVoid":
            s = n["inner"][0]
            while s.get("kind") in ("ParenExpr", "ImplicitCastExpr"):
                s = s["inner"][0]
            if s.get("kind") in ("DeclRefExpr", "UnaryExprOrTypeTraitExpr", "IntegerLiteral"):
                return []
            self.refuse("(void) of an expression of kind %s" % s.get("kind"), n)
        if k == "BinaryOperator" and n.get("opcode") == "=":
            pa = self.try_ptr_assign(n, toplevel)
            if pa is not None:
                return pa
            cx = self.new_cx(n)
            l, r = n["inner"]
            rv = self.expr(r, cx)
            return self.wrapcx(cx, self.assign_to(l, lambda rd: rv, cx, n))
        if k == "CompoundAssignOperator":
            op = n["opcode"][:-1]
            if op not in BINOPS:
                self.refuse("compound assignment `%s`" % n["opcode"], n)
            cx = self.new_cx(n)
            l, r = n["inner"]
            lt = tstr(l)
            if is_ptr(lt):
                while l.get("kind") == "ParenExpr":
                    l = l["inner"][0]
                if l.get("kind") != "DeclRefExpr" or op not in ("+", "-"):
                    self.refuse("compound assignment to the pointer", n)
                amount = self.idx_u64(r, cx)
                return self.wrapcx(cx, self.ptr_advance(self.rn(l), "add" if op == "+" else "sub", amount, n))
            lty = int_ty(lt)
            clt = int_ty(strip_quals(n["computeLHSType"].get("desugaredQualType") or n["computeLHSType"]["qualType"]))
            crt = int_ty(strip_quals(n["computeResultType"].get("desugaredQualType") or n["computeResultType"]["qualType"]))
            rv = self.expr(r, cx)

            def rhs(rd):
                lv = rd()
                if clt != lty:
                    lv = L_cast(clt, lv)
                e = L_bin(BINOPS[op], crt, lv, rv)
                return e if crt == lty else L_cast(lty, e)
            return self.wrapcx(cx, self.assign_to(l, rhs, cx, n))
        if k == "UnaryOperator" and n.get("opcode") in ("++", "--"):
            return self.incdec(n, None, as_stmt=True)
        if k == "CallExpr":
            cx = self.new_cx(n)
            c = self.call(n, None, cx)
            return self.wrapcx(cx, c)
        self.refuse("expression statement of kind %s" % k, n)

    def has_kind(self, n, kinds, stop=()):
        if n.get("kind") in kinds:
            return True
        return any(self.has_kind(c, kinds, stop) for c in n.get("inner", []) if c.get("kind") not in stop)

    def block(self, ss):
        ss = [s for s in ss if s != ".skip"]
        if not ss:
            return ".skip"
        if len(ss) == 1:
            return ss[0]
        return "Stmt.block [\n" + ",\n".join(indent(s) for s in ss) + "]"

    def cond(self, n, what):
        cx = self.new_cx(n, nohoist="in the condition of %s" % what)
        return self.cond_val(n, cx)

    def switch(self, n):
        """`switch (e) { case K1: …; case K2: …; break; … }` -> do { sel = e; m = 0; if (m || sel == K1) { m = 1; … } … } while (0)
           (fall-through preserved; `break` leaves the do-while; `default` only as the last label)"""
        c, body = n["inner"][-2], n["inner"][-1]
        if body.get("kind") != "CompoundStmt":
            self.refuse("switch whose body is not a compound statement", n)
        cx = self.new_cx(n)
        sel, m = self.fresh("sw_sel"), self.fresh("sw_m")
        self.int_vars[sel] = I32
        out = cx["pre"] + ['.assign "%s" %s' % (sel, self.expr(c, cx)), '.assign "%s" (.lit 0)' % m]
        groups = []     # (label exprs or None for default, statements)

        def peel(s, labels):
            while s.get("kind") in ("CaseStmt", "DefaultStmt"):
                if s["kind"] == "CaseStmt":
                    v = self.const_eval(s["inner"][0])
                    if v is None or len(s["inner"]) != 2:
                        self.refuse("case label that is not an integer constant (or a GNU case range)", s)
                    labels.append(v)
                    s = s["inner"][1]
                else:
                    labels.append(None)
                    s = s["inner"][0]
            return s
        for s in body.get("inner", []):
            labels = []
            s2 = peel(s, labels)
            if labels:
                groups.append((labels, []))
            elif not groups:
                self.refuse("statement before the first case label", s)
            groups[-1][1].append(s2)
        seen_default = False
        for labels, ss in groups:
            if seen_default:
                self.refuse("`default` that is not the last label of the switch", n)
            tests = [L_var(m)]
            for v in labels:
                if v is None:
                    seen_default = True
                    tests = [L_lit(1)]
                    break
                tests.append(L_bin("eq", I32, L_var(sel), L_lit(v)))
            t = tests[0]
            for x in tests[1:]:
                t = L_bin("bor", I32, t, x)
            b = ['.assign "%s" (.lit 1)' % m]
            for s in ss:
                if self.has_kind(s, ("ContinueStmt",), stop=("ForStmt", "WhileStmt", "DoStmt")):
                    self.refuse("`continue` inside a switch", s)
                b += self.stmt(s, False)
            out.append(".ite %s\n%s\n%s" % (t, indent(par(self.block(b))), indent(".skip")))
        self.unit.notes.add("`switch` becomes a chain of `if (matched | sel == K)` inside `do { } while (0)` (fall-through and `break` preserved)")
        return [".doWhile\n%s\n%s" % (indent(par(self.block(out))), indent(L_lit(0)))]

    def stmt(self, n, toplevel):
        k = n.get("kind")
        ln = line_of(n)
        if ln:
            self.last_line = ln
        if k == "CompoundStmt":
            out = []
            for c in n.get("inner", []):
                out += self.stmt(c, toplevel)
            return out
        if k == "NullStmt":
            return []
        if k == "DeclStmt":
            out = []
            for d in n.get("inner", []):
                if d.get("kind") in ("StaticAssertDecl",):
                    continue
                if d.get("kind") != "VarDecl":
                    self.refuse("declaration of kind %s" % d.get("kind"), d)
                out += self.vardecl(d, toplevel)
            return out
        if k == "IfStmt":
            inner = n["inner"]
            if n.get("hasInit") or n.get("hasVar"):
                self.refuse("if with init/declaration", n)
            cx = self.new_cx(inner[0])       # a call in the condition of an `if` is evaluated once: hoisted in front
            c = self.cond_val(inner[0], cx)
            if cx["post"]:
                self.refuse("postfix update in the condition of if", n)
            th = self.block(self.stmt(inner[1], False))
            el = self.block(self.stmt(inner[2], False)) if len(inner) > 2 else ".skip"
            return cx["pre"] + [".ite %s\n%s\n%s" % (c, indent(par(th)), indent(par(el)))]
        if k == "ForStmt":
            init, cvar, c, inc, body = n["inner"]
            if cvar:
                self.refuse("for with a condition variable", n)
            if self.has_kind(body, ("ContinueStmt",), stop=("ForStmt", "WhileStmt", "DoStmt")):
                self.refuse("`continue` inside a for loop", n)
            out = []
            if init:
                out += self.stmt(init, toplevel) if init.get("kind") == "DeclStmt" else self.expr_stmt(init, False)
            cc = self.cond(c, "for") if c else L_lit(1)
            b = self.stmt(body, False) + (self.expr_stmt(inc, False) if inc else [])
            return out + [".while %s\n%s" % (cc, indent(par(self.block(b))))]
        if k == "WhileStmt":
            c, body = n["inner"]
            if self.has_kind(body, ("ContinueStmt",), stop=("ForStmt", "WhileStmt", "DoStmt")):
                self.refuse("`continue`", n)
            return [".while %s\n%s" % (self.cond(c, "while"), indent(par(self.block(self.stmt(body, False)))))]
        if k == "DoStmt":
            body, c = n["inner"]
            if self.has_kind(body, ("ContinueStmt",), stop=("ForStmt", "WhileStmt", "DoStmt")):
                self.refuse("`continue`", n)
            return [".doWhile\n%s\n%s" % (indent(par(self.block(self.stmt(body, False)))), indent(self.cond(c, "do-while")))]
        if k == "SwitchStmt":
            return self.switch(n)
        if k == "ReturnStmt":
            inner = n.get("inner", [])
            if not inner or self.ret_ptr:
                if inner and self.ret_ptr:
                    self.ptr(inner[0], self.new_cx(n, nohoist="in return"))   # must still be a recognisable pointer
                return [".ret (.lit 0)"]
            cx = self.new_cx(n)
            e = self.expr(inner[0], cx)
            if cx["post"]:
                self.refuse("postfix update in a return expression", n)
            return cx["pre"] + [".ret %s" % e]
        if k == "BreakStmt":
            return [".brk"]
        if k in ("ContinueStmt", "GotoStmt", "LabelStmt", "CaseStmt", "DefaultStmt"):
            self.refuse("`%s`" % k, n)
        if k in ("GCCAsmStmt", "MSAsmStmt"):
            self.refuse("inline assembly", n)
        if k and (k.endswith("Expr") or k.endswith("Operator") or k.endswith("Literal")):
            return self.expr_stmt(n, toplevel)
        self.refuse("statement of kind %s" % k, n)

    def vardecl(self, d, toplevel):
        t = tstr(d)
        qt = d["type"].get("qualType", "") + " " + d["type"].get("desugaredQualType", "")
        nm = d["name"]
        const_static_arr = d.get("storageClass") == "static" and is_arr(t) and re.search(r"\bconst\b", qt)
        if d.get("storageClass") in ("static", "extern") and not const_static_arr:
            self.refuse("%s local `%s`" % (d["storageClass"], nm), d)
        if const_static_arr and not toplevel:
            self.refuse("static const array `%s` declared inside a loop or branch" % nm, d)
        nm = self.declare_local(d)
        inner = [c for c in d.get("inner", []) if not c.get("kind", "").endswith("Attr")]
        if is_ptr(t):
            et = pointee(t)
            if is_ptr(et) or ("(" in et and "(*)" not in t):
                self.refuse("local `%s` of type `%s`" % (nm, t), d)
            self.ptr_locals[nm] = False
            self.ptr_types[nm] = t
            if inner:
                if self.is_null(inner[0]):
                    return []
                if not toplevel:
                    self.refuse("initialised pointer local `%s` inside a loop or branch" % nm, d)
                return self.bind_ptr(nm, inner[0], self.new_cx(d, nohoist="in a pointer initialiser"), d)
            return []
        fs = self.fields(scalar_of(t))
        if is_arr(t) or fs is not None:
            if fs is None:
                int_ty(scalar_of(t), "(element type of `%s`)" % nm)
            out = []
            for name, vals in self.flat_init(nm, d, t, d):
                if const_static_arr:
                    self.const_arrays.add(name)     # never stored to: (re-)initialising it at its declaration is equivalent
                out.append('.declArr "%s" [%s]' % (name, fmt_vals(vals)))
            return out
        ty = int_ty(t, "(local `%s`)" % nm)
        self.int_vars[nm] = ty
        if not inner:
            return []
        cx = self.new_cx(d)
        e = self.expr(inner[0], cx)
        return self.wrapcx(cx, ['.assign "%s" %s' % (nm, e)])

    def translate(self):
        body = [c for c in self.decl["inner"] if c.get("kind") == "CompoundStmt"][0]
        self.ptr_types = {}
        self.prescan_mutable(body)
        self.header()
        self.body = ""
        ss = self.stmt(body, True)
        for v in self.null_params:
            self.params.append(v)
        pre = ['.declArr "%s" [%s]' % (g, fmt_vals(vals)) for g, vals in self.global_arrays]
        self.body = self.block(pre + self.init_stmts + ss)
        return self


def fmt_vals(vals):
    """long tables are written with explicit constructors (numerals of type Int elaborate slowly in bulk)"""
    if len(vals) <= 64:
        return ", ".join(str(v) for v in vals)
    return ", ".join((".ofNat %d" % v) if v >= 0 else (".negSucc %d" % (-v - 1)) for v in vals)


def indent(s, n=2):
    return "\n".join(" " * n + l for l in s.split("\n"))


def par(s):
    return s if s in (".skip", ".brk", ".abort") else "(" + s + ")"


def shape_trivial(shape):
    return not shape or all((not e[0]) and all(r < 0 and not p for r, p in e[1]) for e in shape)


def shape_suffix(shape):
    if shape_trivial(shape):
        return ""
    parts = []
    for off, arrs in shape:
        s = "o" if off else "n"
        for r, p in arrs:
            if r >= 0:
                s += "m%d" % r
            elif p:
                s += "p"
            elif len(arrs) > 1:
                s += "x"
        parts.append(s)
    return "__" + "_".join(parts)


class Unit:
    """one source file under one preprocessor configuration"""

    def __init__(self, rel, variant, path=None):
        self.rel, self.variant = rel, variant
        self.path = path or os.path.join(SRC, rel)
        self.notes = set()
        self._ast = None

    @property
    def ast(self):
        if self._ast is None:
            self._ast = clang_ast(self.path, self.variant, self.rel)
        return self._ast


class World:
    """all functions translated under one preprocessor configuration (callees may live in other files)"""

    def __init__(self, variant, src_override, table):
        self.variant, self.src_override, self.table = variant, src_override or {}, table
        self.units, self.funs, self.stack, self.origin = {}, {}, [], {}

    def unit(self, rel):
        if rel not in self.units:
            self.units[rel] = Unit(rel, self.variant, self.src_override.get(rel))
        return self.units[rel]

    def find_decl(self, name, unit):
        for nm in (name, "_sodium_" + name):
            if nm in unit.ast.funcs:
                return unit.ast.funcs[nm], unit
        for rel in SEARCH_FILES.get(name, []):
            u = self.unit(rel)
            for nm in (name, "_sodium_" + name):
                if nm in u.ast.funcs:
                    return u.ast.funcs[nm], u
        return None, None

    def base_spec(self, name):
        return self.table.get(name) or CALLEE_SPECS.get(name) or dict(pub=[], pubarr=[], ret=False)

    def function(self, name, shape, decl, dunit, node=None, caller=None):
        clone = name + shape_suffix(shape)
        if clone in self.funs:
            if self.origin[clone] != dunit.rel and name not in SEARCH_FILES:
                # two static functions of the same name in two files: they must translate identically
                f2 = FunTr(self, dunit, decl, name, clone, None if shape_trivial(shape) else shape, self.base_spec(name)).translate()
                if lean_fun(f2) != lean_fun(self.funs[clone]):
                    raise Refuse("two different functions named %s (%s, %s) in one program" % (name, self.origin[clone], dunit.rel))
            return self.funs[clone]
        if clone in self.stack:
            raise Refuse("recursive call of %s" % name)
        self.stack.append(clone)
        try:
            f = FunTr(self, dunit, decl, name, clone, None if shape_trivial(shape) else shape, self.base_spec(name)).translate()
        finally:
            self.stack.pop()
        self.funs[clone] = f
        self.origin[clone] = dunit.rel
        return f

    def entry(self, rel, fn):
        u = self.unit(rel)
        decl, du = self.find_decl(fn, u)
        if decl is None or du is not u:
            raise Refuse("function %s not found in %s [%s] (renamed, removed, or compiled out)" % (fn, rel, self.variant))
        return self.function(fn, None, decl, u)

    def closure(self, name):
        out, todo = [], [name]
        while todo:
            f = todo.pop(0)
            if f in out:
                continue
            out.append(f)
            todo += self.funs[f].callees
        return out

    def notes(self):
        return set().union(*[u.notes for u in self.units.values()]) if self.units else set()


def lean_fun(f, leanname=None):
    return 'def fn_%s : Fun :=\n  { name := "%s"\n    params := [%s]\n    arrParams := [%s]\n    body :=\n%s }\n' % (
        leanname or f.clone, f.clone, ", ".join('"%s"' % p for p in f.params), ", ".join('"%s"' % p for p in f.arr_params), indent(f.body, 6))


def spec_str(name, t):
    return '("%s", ⟨[%s], [%s], %s⟩)' % (name, ", ".join('"%s"' % p for p in t["pub"]), ", ".join('"%s"' % p for p in t["pubarr"]), "true" if t["ret"] else "false")


def select_variants(t, world_of):
    """the configurations a target is translated from: the native one (or, for targets with an assembly / intrinsics fast
       path, the first of noasm / portable that is C), plus `portable` when its code differs"""
    fn, rel = t["fn"], t["file"]
    native_err, w = None, None
    try:
        w = world_of("native")
        w.entry(rel, fn)
    except Refuse as e:
        if not t.get("asm"):
            raise
        native_err, w = str(e), None
    note = None
    if w is None:
        try:
            wa = world_of("noasm")
            wa.entry(rel, fn)
            alt = ("noasm", wa)
        except Refuse:
            wp = world_of("portable")
            wp.entry(rel, fn)
            alt = ("portable", wp)
        note = ("%s: the native x86-64 build has a fast path MiniC cannot express (%s); the C path of the `%s` configuration is translated"
                % (fn, native_err.split(" (function")[0].replace("unsupported construct: ", ""), alt[0]))
        variants = [(alt[0], alt[1], "")]
        if t.get("big") and alt[0] != "portable":
            wp = world_of("portable")
            wp.entry(rel, fn)
            if not same_code(alt[1], wp, fn):
                variants.append(("portable", wp, "_portable"))
    else:
        wp = world_of("portable")
        wp.entry(rel, fn)
        if same_code(w, wp, fn):
            variants = [("native = portable", w, "")]
        else:
            variants = [("native", w, ""), ("portable", wp, "_portable")]
    return variants, note, native_err


def same_code(w1, w2, fn):
    c1, c2 = w1.closure(fn), w2.closure(fn)
    return c1 == c2 and all(lean_fun(w1.funs[g]) == lean_fun(w2.funs[g]) for g in c1)


KEEP_GOING = bool(os.environ.get("C2MINIC_KEEP_GOING"))     # development aid: report refused targets instead of stopping
BIG_NS = "Sodium.Generated.MiniCBig"
CHUNK = 90000      # characters of Lean source per generated function module
NCHK = 14          # number of modules the per-function `checkFn` theorems are spread over (built in parallel)


def generate(targets=None, src_override=None, only=None):
    """-> dict(files = {module file name: text}, report, big = per-configuration data for stage 2)
       src_override: {rel: path} to translate a scratch copy."""
    targets = targets or TARGETS
    table = {t["fn"]: t for t in targets}
    worlds = {}

    def world_of(v):
        if v not in worlds:
            worlds[v] = World(v, src_override, table)
        return worlds[v]
    defs, obls, report, header_notes = [], [], [], []
    emitted = {}
    bigdefs = {}          # lean name -> text           (namespace MiniCBig)
    bigprog = {}          # world key -> [(clone, lean name)]
    bigtargets = []
    refused = []
    for t in targets:
        if only and t["fn"] not in only:
            continue
        fn, rel = t["fn"], t["file"]
        try:
            variants, note, native_err = select_variants(t, world_of)
        except Refuse as e:
            if not KEEP_GOING:
                raise
            refused.append((fn, str(e)))
            continue
        if note:
            header_notes.append(note)
        # the configuration each function is translated from is PINNED (tools/minic_variants.json): when a change to the source makes the
        # pinned configuration untranslatable, silently translating another configuration's (unchanged) code would accept the obligation
        # for code the build does not compile — refuse instead
        vlabel = "+".join(v[0] for v in variants)
        pinned = PINNED_VARIANTS.get(fn)
        if pinned is not None and pinned != vlabel:
            raise Refuse("`%s` was translated from the `%s` configuration; with the current source only `%s` can be translated%s" % (
                fn, pinned, vlabel, (" (" + native_err[:300] + ")") if native_err else ""))
        for vname, w, suffix in variants:
            cl = w.closure(fn)
            f = w.funs[fn]
            for p in t["pub"]:
                if p not in f.params:
                    raise Refuse("the label table names `%s` as a public scalar parameter of %s, but its parameters are now %s" % (p, fn, f.params))
            for p in t["pubarr"]:
                if p not in f.arr_params and p not in [g[0] for g in f.global_arrays]:
                    raise Refuse("the label table names `%s` as a public array of %s, but its arrays are now %s" % (p, fn, f.arr_params))
            sp = f.spec()
            sec_s = [p for p in f.params if p not in sp["pub"]]
            sec_a = [p for p in f.arr_params if p not in sp["pubarr"]]
            doc = "`%s` (%s, %s): SECRET scalars %s, SECRET array contents %s; PUBLIC scalars %s, PUBLIC array contents %s; result %s" % (
                fn, rel, vname, sec_s, sec_a, sp["pub"], sp["pubarr"], "PUBLIC" if sp["ret"] else "SECRET")
            N = fn + suffix
            if not t.get("big"):
                for g in cl:
                    txt = lean_fun(w.funs[g], g + suffix)
                    if (g, suffix) in emitted:
                        if emitted[(g, suffix)] != txt:
                            raise Refuse("internal: two different translations of %s under the same name" % g)
                        continue
                    emitted[(g, suffix)] = txt
                    defs.append("/-- %s : `%s` [%s configuration] -/\n%s" % (w.origin[g], g, vname, txt))
                defs.append("def prog_%s%s : Program := [%s]\n" % (fn, suffix, ", ".join("fn_%s%s" % (g, suffix) for g in cl)))
                specs = "[" + ", ".join(spec_str(g, w.funs[g].spec()) for g in cl) + "]"
                obls.append(("def specs_{N} : Ctx := {specs}\ndef spec_{N} : Spec := {spec}\n\n"
                             "/-- the checker accepts {doc} -/\ntheorem ct_{N} : ctCheck prog_{N} \"{fn}\" specs_{N} = true := by decide +kernel\n\n"
                             "/-- non-interference of the leakage trace of {doc} -/\ntheorem ni_{N} : NonInterferent prog_{N} fn_{N} spec_{N} :=\n"
                             "  soundness ct_{N} (by decide +kernel) (by decide +kernel)\n").format(
                                 N=N, fn=fn, specs=specs, spec=spec_str(fn, sp).split(", ", 1)[1][:-1], doc=doc))
                report.append(dict(fn=fn, file=rel, variant=vname, theorem="ct_" + N, ni="Sodium.Generated.MiniC.ni_" + N, callees=cl[1:]))
                continue
            # ---- large programs: one program per configuration, explicit context (stage 2), one check per function
            wk = w.variant
            prog = bigprog.setdefault(wk, [])
            have = dict(prog)
            for g in cl:
                if g in have:
                    continue
                base = lean_fun(w.funs[g], "@@")
                ln = None
                for cand in (g, g + "_" + wk):
                    if cand not in bigdefs or bigdefs[cand][0] == base:
                        ln = cand
                        break
                if ln is None:
                    raise Refuse("internal: cannot name the translation of %s [%s]" % (g, wk))
                if ln not in bigdefs:
                    bigdefs[ln] = (base, "/-- %s : `%s` [%s configuration] -/\n%s" % (w.origin[g], g, wk, lean_fun(w.funs[g], ln)))
                prog.append((g, ln))
            bigtargets.append(dict(fn=fn, N=N, world=wk, vname=vname, doc=doc, spec=sp, rel=rel))
            report.append(dict(fn=fn, file=rel, variant=vname, theorem="ni_" + N, ni=BIG_NS + ".ni_" + N, callees=cl[1:]))
    notes = sorted(set().union(*[w.notes() for w in worlds.values()])) if worlds else []
    hdr = ("/-\n  GENERATED by tools/c2minic.py from the current source under %s — do not edit.\n"
           "  MiniC translations of libsodium's constant-time leaf helpers (see the translator's docstring for the\n"
           "  normalisations it performs).\n%s%s-/\n") % (SRC, "".join("  * " + h + "\n" for h in header_notes), "".join("  * " + h + "\n" for h in notes))
    files = {}
    files["MiniCFuns.lean"] = "import SodiumModel.MiniC.Syntax\n" + hdr + "open MiniC\nnamespace Sodium.Generated.MiniC\n\n" + "\n".join(defs) + "\nend Sodium.Generated.MiniC\n"
    # function modules of the large programs
    chunks, cur, size = [], [], 0
    for ln in bigdefs:
        txt = bigdefs[ln][1]
        if cur and size + len(txt) > CHUNK:
            chunks.append(cur)
            cur, size = [], 0
        cur.append(txt)
        size += len(txt)
    if cur:
        chunks.append(cur)
    for i, c in enumerate(chunks):
        files["MiniCBigF_%d.lean" % i] = ("import SodiumModel.MiniC.Syntax\n/- GENERATED by tools/c2minic.py — do not edit. -/\nset_option maxRecDepth 100000\nopen MiniC\nnamespace %s\n\n" % BIG_NS
                                          + "\n".join(c) + "\nend %s\n" % BIG_NS)
    big = "".join("import Generated.MiniCBigF_%d\n" % i for i in range(len(chunks))) + "import SodiumModel.MiniC.CtCheck\n" + hdr + "open MiniC\nnamespace %s\n\n" % BIG_NS
    for wk, prog in bigprog.items():
        w = worlds[wk]
        big += "/-- every function translated from the `%s` configuration (entry points and their transitive callees) -/\ndef progAll_%s : Program := [\n  %s]\n\n" % (
            wk, wk, ",\n  ".join("fn_" + ln for _, ln in prog))
        big += "/-- the parameter labelling of each of them -/\ndef specsAll_%s : Ctx := [\n  %s]\n\n" % (wk, ",\n  ".join(spec_str(g, w.funs[g].spec()) for g, _ in prog))
    for bt in bigtargets:
        big += "def spec_%s : Spec := %s\n" % (bt["N"], spec_str(bt["fn"], bt["spec"]).split(", ", 1)[1][:-1])
    big += "\nend %s\n" % BIG_NS
    files["MiniCBig.lean"] = big
    obl_text = ("import Generated.MiniCFuns\nimport SodiumModel.MiniC.Soundness\n@@BIGIMPORT@@/-\n  GENERATED by tools/c2minic.py — do not edit.\n"
                "  Kernel-checked obligations: the MiniC constant-time checker accepts every function translated from the\n"
                "  current source under the secret/public labelling of the translator's table, and the instantiated\n"
                "  non-interference corollaries (MiniC.soundness / MiniC.soundness_ctx).\n-/\nopen MiniC\nnamespace Sodium.Generated.MiniC\n\n" + "\n".join(obls) + "\nend Sodium.Generated.MiniC\n")
    files["MiniCObligations.lean"] = obl_text
    return dict(files=files, report=report, bigprog=bigprog, bigtargets=bigtargets, worlds=worlds, refused=refused)


INFER_TMPL = """import Generated.MiniCBig
import SodiumModel.MiniC.CtCheck
open MiniC %s
def showL (l : List String) : String := "[" ++ ", ".intercalate (l.map (fun s => "\\"" ++ s ++ "\\"")) ++ "]"
def showEnv (e : Env) : String := "⟨" ++ showL e.pubVars ++ ", " ++ showL e.pubArrs ++ ", " ++ toString e.retPub ++ "⟩"
def showCtx (c : Ctx) : String := "[\\n  " ++ ",\\n  ".intercalate (c.map fun p => "(\\"" ++ p.1 ++ "\\", " ++ showEnv p.2 ++ ")") ++ "]"
"""


def stage2(lean_dir, gen):
    """large programs: compute the inferred contexts OUTSIDE the kernel (`#eval inferCtx`, untrusted) and emit the per-function checks"""
    files = {}
    bigprog, bigtargets = gen["bigprog"], gen["bigtargets"]
    if not bigprog:
        gen["files"]["MiniCObligations.lean"] = gen["files"]["MiniCObligations.lean"].replace("@@BIGIMPORT@@", "")
        return files
    p = subprocess.run(["lake", "build", "+Generated.MiniCBig"], cwd=lean_dir, capture_output=True, text=True)
    if p.returncode != 0:
        raise Refuse("internal: the generated function modules do not elaborate: " + (p.stdout + p.stderr)[-2500:])
    src = INFER_TMPL % BIG_NS + "".join('#eval IO.println ("def ctxAll_%s : Ctx := " ++ showCtx (inferCtx progAll_%s specsAll_%s))\n' % (wk, wk, wk) for wk in bigprog)
    sf = os.path.join(lean_dir, "Generated", ".infer.lean")
    open(sf, "w").write(src)
    p = subprocess.run(["lake", "env", "lean", sf], cwd=lean_dir, capture_output=True, text=True)
    os.unlink(sf)
    if p.returncode != 0 or "def ctxAll_" not in p.stdout:
        raise Refuse("internal: label inference script failed: " + (p.stdout + p.stderr)[-2000:])
    files["MiniCBigCtx.lean"] = ("import Generated.MiniCBig\nimport SodiumModel.MiniC.SoundnessCtx\n/- GENERATED by tools/c2minic.py — do not edit.\n"
                                 "   Labels of the locals of every function, as computed by `inferCtx` OUTSIDE the kernel (untrusted:\n"
                                 "   `checkFn` re-checks every function under them, `entryOK` compares them with the parameter labelling). -/\n"
                                 "open MiniC\nnamespace %s\n\n%s\nend %s\n" % (BIG_NS, p.stdout, BIG_NS))
    worlds = gen["worlds"]
    items = []
    for wk, prog in bigprog.items():
        for g, ln in prog:
            items.append((len(worlds[wk].funs[g].body), wk, g, ln))
    items.sort(reverse=True)
    bins = [[] for _ in range(min(NCHK, max(1, len(items))))]
    load = [0] * len(bins)
    for sz, wk, g, ln in items:
        i = load.index(min(load))
        bins[i].append((wk, g, ln))
        load[i] += sz + 2000
    for i, b in enumerate(bins):
        files["MiniCBigChk_%d.lean" % i] = (
            "import Generated.MiniCBigCtx\n/- GENERATED by tools/c2minic.py — do not edit.  One kernel-checked `checkFn` per translated function. -/\n"
            "set_option maxRecDepth 100000\nopen MiniC\nnamespace %s\n\n" % BIG_NS +
            "".join("theorem chk_%s_%s : checkFn progAll_%s ctxAll_%s fn_%s = true := by decide +kernel\n" % (wk, ln, wk, wk, ln) for wk, g, ln in b) +
            "\nend %s\n" % BIG_NS)
    o = "\nnamespace %s\n\n" % BIG_NS
    for wk, prog in bigprog.items():
        term = "allOK_nil _ _"
        for g, ln in reversed(prog):
            term = "allOK_cons chk_%s_%s (%s)" % (wk, ln, term)
        # build the nested term iteratively as a `have` chain to keep the elaborator's recursion shallow
        o += "/-- every function of the `%s` program checks under the supplied labelling -/\ntheorem checkProg_%s : checkProg progAll_%s ctxAll_%s = true := by\n  rw [checkProg_eq_allOK]\n  unfold progAll_%s\n" % (wk, wk, wk, wk, wk)
        o += "".join("  refine allOK_cons chk_%s_%s ?_\n" % (wk, ln) for g, ln in prog) + "  exact allOK_nil _ _\n\n"
    for bt in bigtargets:
        wk, N, fn = bt["world"], bt["N"], bt["fn"]
        ln = dict(bigprog[wk])[fn]
        o += ("/-- non-interference of the leakage trace of {doc} -/\ntheorem ni_{N} : NonInterferent progAll_{wk} fn_{ln} spec_{N} :=\n"
              "  soundness_ctx (f := \"{fn}\") (Γ := ((ctxAll_{wk}).lookup \"{fn}\").getD secretSpec) checkProg_{wk} rfl (by decide +kernel) (by decide +kernel)\n\n").format(
                  doc=bt["doc"], N=N, wk=wk, ln=ln, fn=fn)
    o += "end %s\n" % BIG_NS
    imp = "import SodiumModel.MiniC.SoundnessCtx\n" + "".join("import Generated.MiniCBigChk_%d\n" % i for i in range(len(bins)))
    gen["files"]["MiniCObligations.lean"] = gen["files"]["MiniCObligations.lean"].replace("@@BIGIMPORT@@", imp) + o
    return files


def write_files(lean_dir, files, clean=False):
    g = os.path.join(lean_dir, "Generated")
    os.makedirs(g, exist_ok=True)
    if clean:
        for f in os.listdir(g):
            if re.match(r"^MiniCBig(F|Chk)_\d+\.lean$", f) and f not in files:
                os.unlink(os.path.join(g, f))
    for name, txt in files.items():
        p = os.path.join(g, name)
        if not os.path.exists(p) or open(p).read() != txt:
            open(p, "w").write(txt)


def emit(lean_dir, **kw):
    gen = generate(**kw)
    pre = {k: v for k, v in gen["files"].items() if k != "MiniCObligations.lean"}
    g = os.path.join(lean_dir, "Generated")
    os.makedirs(g, exist_ok=True)
    for f in os.listdir(g):
        if re.match(r"^MiniCBig(F|Chk)_\d+\.lean$", f) and f not in pre:
            os.unlink(os.path.join(g, f))
    write_files(lean_dir, pre)
    s2 = stage2(lean_dir, gen)
    write_files(lean_dir, s2)
    write_files(lean_dir, {"MiniCObligations.lean": gen["files"]["MiniCObligations.lean"]})
    return gen["report"]


def run_tie(lean_dir, src_override=None, examples=True):
    """Regenerate + let the kernel check.  -> dict(status = "ok" | "refused" | "failed", ...)
       refused: the translator no longer recognises the source (message in `error`)
       failed : `failed` lists the obligations (theorem names) that no longer check, `log` the tail of lake's output"""
    try:
        rep = emit(lean_dir, src_override=src_override)
    except Refuse as e:
        return dict(status="refused", error=str(e), failed=[], translated=[])
    mods = ["+Generated.MiniCObligations"] + (["+Generated.MiniCExamples"] if examples and os.path.exists(os.path.join(lean_dir, "Generated", "MiniCExamples.lean")) else [])
    p = subprocess.run(["lake", "build"] + mods, cwd=lean_dir, capture_output=True, text=True)
    out = p.stdout + p.stderr
    if p.returncode == 0:
        return dict(status="ok", failed=[], translated=rep, log="")
    failed = []
    gdir = os.path.join(lean_dir, "Generated")
    for fname in sorted(os.listdir(gdir)):
        if not re.match(r"^MiniC.*\.lean$", fname):
            continue
        path = os.path.join(gdir, fname)
        src = open(path).read().split("\n")
        for m in re.finditer(r"Generated/%s:(\d+):\d+: " % re.escape(fname), out):
            ln = int(m.group(1))
            name = None
            for k in range(min(ln, len(src)) - 1, -1, -1):
                mm = re.match(r"^(theorem|example)\s*([A-Za-z0-9_']*)", src[k])
                if mm:
                    name = mm.group(2) or ("example at %s:%d" % (fname, k + 1))
                    break
            if name and name not in failed:
                failed.append(name)
    return dict(status="failed", failed=failed or ["lake build"], translated=rep, log=out[-3000:])


def main(argv):
    import argparse
    ap = argparse.ArgumentParser(description=__doc__.split("\n")[0])
    ap.add_argument("--lean", default=os.environ.get("VERIF_LEAN", "/verif/lean"), help="lake project to write Generated/MiniC*.lean into")
    ap.add_argument("--src", action="append", default=[], metavar="REL=PATH", help="translate PATH instead of /repo/src/libsodium/REL (mutation self-test)")
    ap.add_argument("--inc", action="append", default=[], metavar="DIR", help="include directory searched first (scratch copy of include/sodium for header mutations)")
    ap.add_argument("--only", action="append", default=[], help="restrict to these target functions")
    ap.add_argument("--stdout", action="store_true", help="print the generated function files instead of writing")
    ap.add_argument("--check", action="store_true", help="after writing, run `lake build +Generated.MiniCObligations +Generated.MiniCExamples`; exit 1 naming the obligations that fail")
    a = ap.parse_args(argv)
    ov = dict(s.split("=", 1) for s in a.src)
    EXTRA_INC[:] = a.inc
    if a.check:
        r = run_tie(a.lean, src_override=ov)
        if r["status"] == "refused":
            sys.stderr.write("c2minic: REFUSED — translator no longer recognises the source: %s\n" % r["error"])
            return 2
        if r["status"] == "failed":
            sys.stderr.write("c2minic: obligations that no longer check: %s\n%s\n" % (", ".join(r["failed"]), r["log"][-1500:]))
            return 1
        print("c2minic: %d functions translated, all obligations check" % len(r["translated"]))
        return 0
    try:
        if a.stdout:
            gen = generate(src_override=ov, only=a.only)
            for k, v in gen["files"].items():
                sys.stdout.write("-- ==== %s\n%s\n" % (k, v))
        else:
            rep = emit(a.lean, src_override=ov, only=a.only)
            for r in rep:
                print("translated %-28s [%s] %s" % (r["fn"], r["variant"], ("calls " + ", ".join(r["callees"])) if r["callees"] else ""))
    except Refuse as e:
        sys.stderr.write("c2minic: REFUSED — translator no longer recognises the source: %s\n" % e)
        return 2
    return 0


if __name__ == "__main__":
    sys.exit(main(sys.argv[1:]))
