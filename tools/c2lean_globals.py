#!/usr/bin/env python3
"""c2lean_globals.py -- Tie B of property C19 (thread safety after initialisation).

Runs clang-14 `-Xclang -ast-dump=json` over every .c file the x86-64 build of libsodium compiles
(file list, DEFS and per-file -m flags are those of /verif/harness/build_sodium.py) and emits
`Generated/Globals.lean`:

  * every object with static storage duration (file scope or function-static) whose type is not
    `const`: name, file, thread-local?, volatile / atomic?, mutex?;
  * for every function of the library every direct read / write of such an object
      - `x = ..`            write            - `x op= ..`, `x++`   read + write
      - `.. = x` (lvalue-to-rvalue load)  read
      - `&x` / array decay of x escaping (passed to a non-const pointer parameter, stored, returned)
                            write + read (conservative);   passed / assigned to a pointer-to-const: read
      - `p->f` where p is a tracked global pointer to struct T: the same kind of access to every tracked
        object of type struct T (the possible pointees);
  * the static call graph: direct callees; calls through a global function pointer resolved to every
    function that is ever stored in it (initialiser or assignment); calls through `ptr->field` / `obj.field`
    resolved to the `field` initialiser of every object of that struct type in the library;
  * for every access and call its lock context in the same function
      inherit  : no sodium_crit_enter/leave, pthread_mutex_lock/unlock has been executed yet in this function
                 (protected iff the caller holds the lock)
      held     : lexically after an enter/lock (all paths)        released : after a leave/unlock (some path)
    computed by a structured walk (a branch ending in `return` / a noreturn call does not flow on);
  * for every access and call whether it is only executed while the phase flag is 0, i.e. lexically after
    `if (FLAG != 0) { ...; return ..; }` in the same function (FLAG a tracked object; the flag's index is
    recorded so that the Lean model only honours the guard of core.c's `initialized`).

Functions that can reach no access to a tracked object (and no call of such a function) are pruned from
the table (they contribute neither events nor edges); the number pruned is recorded.
"""
import json, os, re, subprocess, sys, hashlib
from concurrent.futures import ProcessPoolExecutor

sys.path.insert(0, os.path.join(os.path.dirname(os.path.abspath(__file__)), "..", "harness"))
import build_sodium as B  # noqa: E402

CLANG = os.environ.get("C2LEAN_CLANG", "clang-14")
LOCK_FNS = {"sodium_crit_enter", "pthread_mutex_lock"}
UNLOCK_FNS = {"sodium_crit_leave", "pthread_mutex_unlock"}
TERMINATORS = {"abort", "exit", "_exit", "sodium_misuse", "__assert_fail"}


# --------------------------------------------------------------------------------------------
# types

def strip_arrays(t):
    return re.sub(r"(\[[^\]]*\])+$", "", t.strip()).strip()


def is_const_object(qual):
    """top-level constness of an object of (printed) type `qual`"""
    t = strip_arrays(qual)
    m = re.search(r"\(\*+([^)]*)\)", t)          # pointer to function / array: `ret (*const)(args)`
    if m:
        return "const" in m.group(1)
    if "*" in t:
        return "const" in t[t.rfind("*"):]
    return re.search(r"\bconst\b", t) is not None


def pointee_const(qual):
    """`qual` is a pointer type: is the pointee const-qualified?"""
    t = qual.strip()
    if "(*" in t:
        return False
    if "*" not in t:
        return False
    head = t[:t.rfind("*")]
    if "*" in head:
        return "const" in head[head.rfind("*"):]
    return re.search(r"\bconst\b", head) is not None


TYPEDEFS = {}      # per translation unit (each TU is analysed in its own process call): typedef name -> printed type


def desugar(d):
    for _ in range(6):
        if re.search(r"\bstruct\s+([A-Za-z_0-9]+)", d):
            break
        toks = [t for t in re.findall(r"[A-Za-z_][A-Za-z_0-9]*", d) if t in TYPEDEFS]
        if not toks:
            break
        d = re.sub(r"\b%s\b" % re.escape(toks[0]), TYPEDEFS[toks[0]], d, count=1)
    return d


def record_name(ty):
    """struct name behind an object / pointer type, e.g. `const struct X *` -> X (typedefs resolved)"""
    d = desugar(ty.get("desugaredQualType") or ty.get("qualType") or "")
    m = re.search(r"\bstruct\s+([A-Za-z_0-9]+)", d)
    return m.group(1) if m else None


def is_fnptr_type(ty):
    d = ty.get("desugaredQualType") or ty.get("qualType") or ""
    return "(*" in d and "[" not in d.split("(*")[0]


# --------------------------------------------------------------------------------------------
# one translation unit

class TU:
    def __init__(self, rel, root):
        self.rel = rel
        self.decl = {}            # id -> ('obj', key) | ('fn', key, name) | ('local',)
        self.objects = {}         # key -> dict
        self.extern_refs = set()
        self.functions = {}       # key -> dict(name, static, api, accesses, calls)
        self.api = set()
        self.fnptr_targets = {}   # object key -> set(function keys) stored into the pointer
        self.record_inits = {}    # (record, field) -> set(function keys)
        self.record_fields = {}   # record -> [field names]
        self.objs_of_record = {}  # record -> set(object keys)  (tracked or not)
        self.ptr_record = {}      # object key (pointer global) -> record it points to
        self.notes = []
        self.cur_file = None
        self.field_of = {}        # FieldDecl id -> (record name, field name)
        self.alias = {}           # const global pointer key -> (object key it is initialised to point into, pointee const?)
        TYPEDEFS.clear()
        for n in root.get("inner", []):
            if n.get("kind") == "TypedefDecl" and n.get("name"):
                TYPEDEFS[n["name"]] = n.get("type", {}).get("desugaredQualType") or n.get("type", {}).get("qualType", "")
        self.scan_top(root)

    # -- keys
    def fkey(self, name, static):
        return (self.rel + ":" + name) if static else name

    def scan_top(self, root):
        # pass 1: declarations
        for n in root.get("inner", []):
            k = n.get("kind")
            if k == "RecordDecl" and n.get("name") and n.get("completeDefinition"):
                self.record_fields[n["name"]] = [f.get("name") for f in n.get("inner", []) if f.get("kind") == "FieldDecl"]
                for f in n.get("inner", []):
                    if f.get("kind") == "FieldDecl":
                        self.field_of[f["id"]] = (n["name"], f.get("name"))
            elif k == "VarDecl":
                self.declare_var(n, None)
            elif k == "FunctionDecl":
                static = n.get("storageClass") == "static"
                key = self.fkey(n["name"], static)
                self.decl[n["id"]] = ("fn", key, n["name"])
                if any(a.get("kind") == "VisibilityAttr" for a in n.get("inner", [])) and not static:
                    self.api.add(n["name"])
        # pass 2: bodies and initialisers
        for n in root.get("inner", []):
            k = n.get("kind")
            if k == "VarDecl" and n.get("init"):
                self.scan_initialiser(n)
            elif k == "FunctionDecl":
                body = [c for c in n.get("inner", []) if c.get("kind") == "CompoundStmt"]
                if body:
                    self.scan_function(n, body[0])

    def declare_var(self, n, func):
        name = n.get("name")
        if name is None:
            self.decl[n["id"]] = ("local",)
            return
        sc = n.get("storageClass")
        ty = n.get("type", {})
        qual = ty.get("qualType", "")
        desug = desugar(ty.get("desugaredQualType", qual))
        if func is not None and sc not in ("static", "extern"):
            self.decl[n["id"]] = ("local",)
            return
        if func is not None and sc == "static":
            key = "%s:%s:%s" % (self.rel, func, name)
        elif sc == "static":
            key = "%s:%s" % (self.rel, name)
        else:
            key = name
        self.decl[n["id"]] = ("obj", key)
        rec = record_name(ty)
        if rec and "*" in desug and "(*" not in desug:
            self.ptr_record[key] = rec
        if sc == "extern" and not n.get("init"):
            self.extern_refs.add(key)
            return
        const = is_const_object(qual) or is_const_object(desug)
        if rec and "*" not in desug:
            self.objs_of_record.setdefault(rec, set()).add(key)
        o = self.objects.setdefault(key, {
            "key": key, "name": name, "file": self.rel, "func": func, "const": const,
            "tls": bool(n.get("tls")),
            "volatile": bool(re.search(r"\bvolatile\b|_Atomic", qual + " " + desug)),
            "mutex": "pthread_mutex_t" in qual or "pthread_mutex_t" in desug,
            "type": qual, "line": n.get("loc", {}).get("line"), "static": sc == "static"})
        if n.get("init"):
            o["hasinit"] = True

    # -- global initialisers: function-pointer tables and function-pointer variables
    def scan_initialiser(self, n):
        ent = self.decl.get(n["id"])
        if not ent or ent[0] != "obj":
            return
        key = ent[1]
        init = [c for c in n.get("inner", []) if "Attr" not in c.get("kind", "")]
        if not init:
            return
        init = init[-1]
        rec = record_name(n.get("type", {}))
        if init.get("kind") == "InitListExpr" and rec and rec in self.record_fields:
            fields = self.record_fields[rec]
            for i, e in enumerate(init.get("inner", [])):
                f = self.fn_ref(e)
                if f and i < len(fields):
                    self.record_inits.setdefault((rec, fields[i]), set()).add(f)
        else:
            f = self.fn_ref(init)
            if f:
                self.fnptr_targets.setdefault(key, set()).add(f)
            elif is_const_object(n.get("type", {}).get("qualType", "")):
                # a const pointer initialised to point into a tracked object (`static const T *const LUT = _aes_lut`)
                for d in self.all_nodes(init):
                    if d.get("kind") == "DeclRefExpr" and d["referencedDecl"].get("kind") == "VarDecl":
                        ent2 = self.decl.get(d["referencedDecl"]["id"])
                        if ent2 and ent2[0] == "obj":
                            self.alias[key] = (ent2[1], pointee_const(n.get("type", {}).get("qualType", "")))

    def all_nodes(self, e):
        yield e
        for c in e.get("inner", []) or []:
            if isinstance(c, dict):
                yield from self.all_nodes(c)

    def fn_ref(self, e):
        """function key if expression e (modulo casts / & / parens) names a function"""
        while e.get("kind") in ("ImplicitCastExpr", "ParenExpr", "CStyleCastExpr", "ConstantExpr") or \
                (e.get("kind") == "UnaryOperator" and e.get("opcode") == "&"):
            inner = e.get("inner", [])
            if not inner:
                return None
            e = inner[0]
        if e.get("kind") == "DeclRefExpr" and e["referencedDecl"].get("kind") == "FunctionDecl":
            ent = self.decl.get(e["referencedDecl"]["id"])
            if ent:
                return ent[1]
            return e["referencedDecl"]["name"]
        return None

    # -- function bodies
    def scan_function(self, n, body):
        static = n.get("storageClass") == "static"
        key = self.fkey(n["name"], static)
        for p in n.get("inner", []):
            if p.get("kind") == "ParmVarDecl":
                self.decl[p["id"]] = ("local",)
        self.F = {"key": key, "name": n["name"], "file": self.rel, "static": static, "accesses": [], "calls": [],
                  "indirect_unresolved": [], "lock_ops": 0, "line": n.get("loc", {}).get("line")}
        self.fname = n["name"]
        self.guards = []       # object keys g such that we are lexically after `if (g != 0) {..return}`
        st = self.stmt(body, "inherit")
        self.F["end_lock"] = st
        self.functions[key] = self.F

    def acc(self, key, write, lock, how):
        self.F["accesses"].append({"obj": key, "write": write, "lock": lock, "guards": list(self.guards), "how": how})

    def call(self, callee, lock, how):
        self.F["calls"].append({"callee": callee, "lock": lock, "guards": list(self.guards), "how": how})

    @staticmethod
    def join(a, b):
        if a is None:
            return b
        if b is None:
            return a
        if a == b:
            return a
        return "released"       # conservative: not protected

    def stmt(self, s, lock):
        """walk statement s with incoming lock context; returns outgoing context, None = does not fall through"""
        if lock is None:
            lock = "released"   # dead / after-goto code: be conservative
        k = s.get("kind")
        inner = s.get("inner", [])
        if k == "CompoundStmt":
            for c in inner:
                lock = self.stmt(c, lock)
                if lock is None:
                    # code after a return inside the same block (labels): keep walking conservatively
                    lock_dead = "released"
                    rest = inner[inner.index(c) + 1:]
                    if not rest:
                        return None
                    for r in rest:
                        lock_dead = self.stmt(r, lock_dead)
                        if lock_dead is None:
                            lock_dead = "released"
                    return None
            return lock
        if k == "IfStmt":
            cond, then = inner[0], inner[1]
            els = inner[2] if len(inner) > 2 else None
            lock = self.expr(cond, lock, "none")
            nguards = len(self.guards)
            l1 = self.stmt(then, lock)
            del self.guards[nguards:]
            l2 = self.stmt(els, lock) if els is not None else lock
            del self.guards[nguards:]
            if l1 is None and els is None:
                g = self.flag_nonzero_test(cond)
                if g:
                    self.guards.append(g)
            return self.join(l1, l2)
        if k in ("ReturnStmt",):
            for c in inner:
                lock = self.expr(c, lock, "escape")
            return None
        if k in ("WhileStmt", "DoStmt", "ForStmt"):
            l0 = lock
            for c in inner:
                if not c:
                    continue
                if c.get("kind", "").endswith("Stmt") and c.get("kind") not in ("DeclStmt",):
                    lb = self.stmt(c, lock)
                    lock = self.join(lock, lb) if lb is not None else lock
                elif c.get("kind") == "DeclStmt":
                    lock = self.stmt(c, lock)
                else:
                    lock = self.expr(c, lock, "none")
            return self.join(l0, lock)
        if k == "SwitchStmt":
            lock = self.expr(inner[0], lock, "none")
            lb = self.stmt(inner[1], lock)
            return self.join(lock, lb)
        if k in ("CaseStmt", "DefaultStmt", "LabelStmt", "AttributedStmt"):
            for c in inner:
                if c.get("kind", "").endswith("Stmt"):
                    lock = self.stmt(c, lock)
                    if lock is None:
                        return None
                else:
                    lock = self.expr(c, lock, "none")
            return lock
        if k == "DeclStmt":
            for d in inner:
                if d.get("kind") == "VarDecl":
                    self.declare_var(d, self.fname)
                    if d.get("init"):
                        ex = [c for c in d.get("inner", []) if "Attr" not in c.get("kind", "")]
                        if ex and d.get("storageClass") != "static":
                            mode = "toconst" if pointee_const(d.get("type", {}).get("qualType", "")) else "escape"
                            lock = self.expr(ex[-1], lock, mode)
                        elif ex:
                            self.scan_initialiser(d)
                elif d.get("kind") == "RecordDecl" and d.get("name") and d.get("completeDefinition"):
                    self.record_fields[d["name"]] = [f.get("name") for f in d.get("inner", []) if f.get("kind") == "FieldDecl"]
            return lock
        if k in ("BreakStmt", "ContinueStmt", "NullStmt"):
            return lock
        if k == "GotoStmt":
            return None
        if k in ("GCCAsmStmt", "MSAsmStmt"):
            for c in inner:
                lock = self.expr(c, lock, "escape")
            return lock
        # expression statement
        lock = self.expr(s, lock, "none")
        if k == "CallExpr":
            f = self.fn_ref(inner[0]) if inner else None
            if f in TERMINATORS:
                return None
        return lock

    def flag_nonzero_test(self, cond):
        """cond is `G != 0` (or plain `G`) for a tracked object G -> key of G"""
        e = cond
        while e.get("kind") in ("ParenExpr",):
            e = e["inner"][0]
        if e.get("kind") == "BinaryOperator" and e.get("opcode") == "!=":
            a, b = e["inner"]
            if b.get("kind") == "IntegerLiteral" and b.get("value") == "0":
                e = a
            else:
                return None
        if e.get("kind") == "ImplicitCastExpr" and e.get("castKind") == "LValueToRValue":
            d = e["inner"][0]
            if d.get("kind") == "DeclRefExpr":
                ent = self.decl.get(d["referencedDecl"]["id"])
                if ent and ent[0] == "obj":
                    return ent[1]
        return None

    def expr(self, e, lock, mode):
        """mode: what happens to the lvalue / pointer denoted by e:
           none | read | write | rw | escape (address escapes: write+read) | toconst (address goes to a const pointer: read)"""
        if not e or "kind" not in e:
            return lock
        k = e["kind"]
        inner = e.get("inner", [])
        if k == "DeclRefExpr":
            rd = e["referencedDecl"]
            if rd.get("kind") == "FunctionDecl":
                # the address of a function is taken here (callback argument, local function pointer): it may be
                # called during this function -> call edge at this point
                ent = self.decl.get(rd["id"])
                self.call(ent[1] if ent else rd["name"], lock, "address taken")
                return lock
            if rd.get("kind") == "VarDecl":
                ent = self.decl.get(rd["id"])
                if ent and ent[0] == "obj":
                    key = ent[1]
                    if mode == "read":
                        self.acc(key, False, lock, "load")
                    elif mode == "write":
                        self.acc(key, True, lock, "store")
                    elif mode == "rw":
                        self.acc(key, False, lock, "load")
                        self.acc(key, True, lock, "rmw")
                    elif mode == "escape":
                        self.acc(key, False, lock, "addr")
                        self.acc(key, True, lock, "addr")
                    elif mode == "toconst":
                        self.acc(key, False, lock, "addr-const")
            return lock
        if k == "ImplicitCastExpr" or k == "CStyleCastExpr":
            ck = e.get("castKind")
            if ck == "LValueToRValue":
                return self.expr(inner[0], lock, "read")
            if ck == "ArrayToPointerDecay":
                m = mode if mode in ("toconst", "sub-read", "sub-write", "sub-rw", "sub-none") else "escape"
                m = {"sub-read": "read", "sub-write": "write", "sub-rw": "rw", "sub-none": "none"}.get(m, m)
                return self.expr(inner[0], lock, m)
            if ck == "FunctionToPointerDecay":
                return self.expr(inner[0], lock, "none")
            if k == "CStyleCastExpr" and mode == "toconst" and not pointee_const(e.get("type", {}).get("qualType", "")) \
                    and "*" in e.get("type", {}).get("qualType", ""):
                mode = "escape"      # (T *) cast away of const on the way
            return self.expr(inner[0], lock, mode) if inner else lock
        if k in ("ParenExpr", "ConstantExpr"):
            return self.expr(inner[0], lock, mode)
        if k == "UnaryOperator":
            op = e.get("opcode")
            if op == "&":
                return self.expr(inner[0], lock, mode if mode == "toconst" else "escape")
            if op in ("++", "--"):
                return self.expr(inner[0], lock, "rw")
            if op == "*":
                lock = self.expr(inner[0], lock, "none")
                self.deref(inner[0], lock, mode)
                return lock
            return self.expr(inner[0], lock, "none")
        if k == "UnaryExprOrTypeTraitExpr":
            return lock
        if k == "BinaryOperator" or k == "CompoundAssignOperator":
            op = e.get("opcode")
            if op == "=":
                lt = inner[0].get("type", {}).get("qualType", "")
                rmode = "toconst" if pointee_const(lt) else "escape"
                if not self.note_fnptr_store(inner[0], inner[1]):
                    lock = self.expr(inner[1], lock, rmode)
                return self.expr(inner[0], lock, "write")
            if k == "CompoundAssignOperator":
                lock = self.expr(inner[1], lock, "none")
                return self.expr(inner[0], lock, "rw")
            if op == ",":
                lock = self.expr(inner[0], lock, "none")
                return self.expr(inner[1], lock, mode)
            if op in ("+", "-") and mode in ("escape", "toconst"):
                lock = self.expr(inner[0], lock, mode)
                return self.expr(inner[1], lock, mode)
            lock = self.expr(inner[0], lock, "none")
            return self.expr(inner[1], lock, "none")
        if k == "ArraySubscriptExpr":
            sub = {"read": "sub-read", "write": "sub-write", "rw": "sub-rw"}.get(mode, mode)
            for c in inner:
                if c.get("kind") == "ImplicitCastExpr" and c.get("castKind") == "ArrayToPointerDecay":
                    lock = self.expr(c, lock, sub if sub.startswith("sub-") or sub in ("toconst", "escape") else "sub-none")
                else:
                    lock = self.expr(c, lock, "none")
                    if c is inner[0]:
                        self.deref(c, lock, mode)
            return lock
        if k == "MemberExpr":
            if e.get("isArrow"):
                lock = self.expr(inner[0], lock, "none")
                self.deref(inner[0], lock, mode)
                return lock
            return self.expr(inner[0], lock, mode)
        if k == "ConditionalOperator":
            lock = self.expr(inner[0], lock, "none")
            l1 = self.expr(inner[1], lock, mode)
            l2 = self.expr(inner[2], lock, mode)
            return self.join(l1, l2)
        if k == "CallExpr":
            return self.callexpr(e, lock)
        if k == "InitListExpr" or k == "CompoundLiteralExpr":
            for c in inner:
                lock = self.expr(c, lock, "escape")
            return lock
        if k == "StmtExpr":
            for c in inner:
                r = self.stmt(c, lock)
                lock = r if r is not None else lock
            return lock
        if k.endswith("Stmt"):
            r = self.stmt(e, lock)
            return r if r is not None else lock
        for c in inner:
            lock = self.expr(c, lock, "none" if mode not in ("escape", "toconst") else mode)
        return lock

    def strip(self, e):
        while e.get("kind") in ("ImplicitCastExpr", "ParenExpr", "CStyleCastExpr", "ConstantExpr") and e.get("inner"):
            e = e["inner"][0]
        return e

    def deref(self, p, lock, mode):
        """p is a pointer rvalue being dereferenced with access `mode`; if it is (a load of) a tracked global
           pointer to struct T, record the access for every possible pointee (resolved later by record type)"""
        b = self.strip(p)
        if b.get("kind") == "DeclRefExpr" and b["referencedDecl"].get("kind") == "VarDecl":
            ent = self.decl.get(b["referencedDecl"]["id"])
            if ent and ent[0] == "obj":
                key = ent[1]
                rec = self.ptr_record.get(key)
                w = {"read": [False], "write": [True], "rw": [False, True], "escape": [False, True],
                     "toconst": [False], "none": [False]}.get(mode, [False])
                for x in w:
                    self.F["accesses"].append({"obj": None, "pointee_of": key, "record": rec, "write": x, "lock": lock,
                                               "guards": list(self.guards), "how": "deref"})

    def note_fnptr_store(self, lhs, rhs):
        f = self.fn_ref(rhs)
        l = self.strip(lhs)
        if f and l.get("kind") == "DeclRefExpr" and l["referencedDecl"].get("kind") == "VarDecl":
            ent = self.decl.get(l["referencedDecl"]["id"])
            if ent and ent[0] == "obj":
                self.fnptr_targets.setdefault(ent[1], set()).add(f)
                return True
        return False

    def callexpr(self, e, lock):
        inner = e["inner"]
        callee, args = inner[0], inner[1:]
        f = self.fn_ref(callee)
        ptypes = None
        if f is not None:
            cal = self.strip(callee)
            q = cal.get("type", {}).get("qualType", "")
            ptypes = self.param_types(q)
        else:
            q = callee.get("type", {}).get("qualType", "")
            ptypes = self.param_types(q.replace("(*)", "", 1)) if "(*)" in q else None
        # arguments first (C evaluates them before the call)
        for i, a in enumerate(args):
            m = "escape"
            if ptypes is not None and i < len(ptypes):
                pt = ptypes[i]
                if "*" not in pt and "[" not in pt:
                    m = "none"
                elif pointee_const(pt):
                    m = "toconst"
            if f in ("pthread_mutex_lock", "pthread_mutex_unlock"):
                m = "toconst"        # the mutex itself: the address is the synchronisation object
            lock = self.expr(a, lock, m)
        if f is not None:
            name = f.split(":")[-1]
            if name in LOCK_FNS:
                self.F["lock_ops"] += 1
                self.call(f, lock, "direct")
                return "held"
            if name in UNLOCK_FNS:
                self.F["lock_ops"] += 1
                self.call(f, lock, "direct")
                return "released"
            self.call(f, lock, "direct")
            return lock
        # indirect call
        lock = self.expr(callee, lock, "none")
        c = self.strip(callee)
        if c.get("kind") == "UnaryOperator" and c.get("opcode") == "*":
            c = self.strip(c["inner"][0])
        if c.get("kind") == "DeclRefExpr" and c["referencedDecl"].get("kind") in ("VarDecl", "ParmVarDecl"):
            ent = self.decl.get(c["referencedDecl"]["id"])
            if ent and ent[0] == "obj":
                self.F["calls"].append({"via_ptr": ent[1], "lock": lock, "guards": list(self.guards), "how": "fnptr"})
                return lock
            self.F["local_fnptr_calls"] = self.F.get("local_fnptr_calls", []) + [c["referencedDecl"].get("name")]
            return lock
        if c.get("kind") == "MemberExpr":
            base = c["inner"][0]
            rec = self.field_of.get(c.get("referencedMemberDecl"), (record_name(base.get("type", {})), None))[0]
            self.F["calls"].append({"via_field": (rec, c.get("name")), "lock": lock, "guards": list(self.guards), "how": "field"})
            return lock
        self.F["indirect_unresolved"].append("expression of kind %s" % c.get("kind"))
        return lock

    @staticmethod
    def param_types(fq):
        """parameter types of printed function type `ret (a, b, c)` (top-level split)"""
        i = fq.find("(")
        if i < 0:
            return None
        depth, cur, out = 0, "", []
        for ch in fq[i:]:
            if ch == "(":
                depth += 1
                if depth == 1:
                    continue
            if ch == ")":
                depth -= 1
                if depth == 0:
                    out.append(cur.strip())
                    break
            if ch == "," and depth == 1:
                out.append(cur.strip())
                cur = ""
                continue
            cur += ch
        if out == ["void"] or out == [""]:
            return []
        return out


def clang_cmd(rel, outdir):
    inc = B.include_flags() + B.ensure_version_h(outdir)
    return [CLANG, "-fsyntax-only", "-w", "-Xclang", "-ast-dump=json"] + B.defs_for("native") + inc + \
        B.mflags(rel) + [os.path.join(B.SRC, rel)]


def process(args):
    rel, outdir = args
    p = subprocess.run(clang_cmd(rel, outdir), capture_output=True)
    if p.returncode != 0:
        raise RuntimeError("clang failed on %s: %s" % (rel, p.stderr.decode()[-2000:]))
    root = json.loads(p.stdout)
    del p
    tu = TU(rel, root)
    return {"rel": rel, "objects": tu.objects, "functions": tu.functions, "api": sorted(tu.api),
            "fnptr_targets": {k: sorted(v) for k, v in tu.fnptr_targets.items()},
            "record_inits": [[list(k), sorted(v)] for k, v in tu.record_inits.items()],
            "objs_of_record": {k: sorted(v) for k, v in tu.objs_of_record.items()},
            "extern_refs": sorted(tu.extern_refs), "alias": tu.alias}


# --------------------------------------------------------------------------------------------
# whole library

def analyse(repo_src=None, outdir="/var/tmp/pd-globals/out/astgen", jobs=8):
    if repo_src:
        B.SRC = repo_src
        B.REPO = os.path.dirname(os.path.dirname(repo_src.rstrip("/")))
    os.makedirs(outdir, exist_ok=True)
    rels = [r for r in B.sources() if r.endswith(".c")]
    asm = [r for r in B.sources() if r.endswith(".S")]
    with ProcessPoolExecutor(max_workers=jobs) as ex:
        tus = list(ex.map(process, [(r, outdir) for r in rels]))
    objects, functions, api = {}, {}, set()
    fnptr, recinit, objs_rec, alias = {}, {}, {}, {}
    for t in tus:
        alias.update(t["alias"])
        for k, o in t["objects"].items():
            if k in objects and not o["static"]:
                if o.get("hasinit") or not objects[k].get("hasinit"):
                    objects[k] = o
            else:
                objects[k] = o
        for k, f in t["functions"].items():
            if k in functions and not f["static"]:
                # extern inline etc.: keep the first, but they must agree in shape
                continue
            functions[k] = f
        api |= set(t["api"])
        for k, v in t["fnptr_targets"].items():
            fnptr.setdefault(k, set()).update(v)
        for k, v in t["record_inits"]:
            recinit.setdefault(tuple(k), set()).update(v)
        for k, v in t["objs_of_record"].items():
            objs_rec.setdefault(k, set()).update(v)
    tracked = {k: o for k, o in objects.items() if not o["const"]}
    notes = []
    # resolve
    for f in functions.values():
        acc = []
        for a in f["accesses"]:
            if a.get("obj") is not None:
                if a["obj"] in tracked:
                    acc.append(a)
                elif a["obj"] not in objects:
                    notes.append("reference to object `%s` in %s that has no definition in the library" % (a["obj"], f["key"]))
            else:
                rec = a.get("record")
                if a["pointee_of"] in alias:
                    cands = [alias[a["pointee_of"]][0]]
                else:
                    cands = sorted(objs_rec.get(rec, ())) if rec else []
                for cand in cands:
                    if cand in tracked:
                        acc.append(dict(a, obj=cand, how="deref of %s" % a["pointee_of"]))
        f["accesses"] = acc
        calls = []
        for c in f["calls"]:
            if "callee" in c:
                calls.append(c)
            elif "via_ptr" in c:
                tg = sorted(fnptr.get(c["via_ptr"], ()))
                if not tg:
                    f["indirect_unresolved"].append("global function pointer `%s` with no known target" % c["via_ptr"])
                for t in tg:
                    calls.append(dict(c, callee=t, how="via pointer %s" % c["via_ptr"]))
            else:
                rec, fld = c["via_field"]
                tg = sorted(recinit.get((rec, fld), ()))
                if not tg:
                    f["indirect_unresolved"].append("call through field `%s.%s` with no known initialiser" % (rec, fld))
                for t in tg:
                    calls.append(dict(c, callee=t, how="via %s.%s" % (rec, fld)))
        f["calls"] = calls
    return {"tracked": tracked, "objects": objects, "functions": functions, "api": api, "asm": asm,
            "notes": notes, "files": rels, "fnptr": fnptr}


def prune(functions):
    """keep the functions from which an access to a tracked object is reachable"""
    keep = {k for k, f in functions.items() if f["accesses"]}
    changed = True
    while changed:
        changed = False
        for k, f in functions.items():
            if k in keep:
                continue
            if any(c["callee"] in keep for c in f["calls"]):
                keep.add(k)
                changed = True
    return keep


def lean_str(s):
    return '"' + s.replace("\\", "\\\\").replace('"', '\\"') + '"'


def emit(res, path, flag_key="sodium/core.c:initialized"):
    tracked, functions, api = res["tracked"], res["functions"], res["api"]
    keep = prune(functions)
    # API functions are always kept (so that the roots of the model are exactly the exported functions that matter)
    okeys = sorted(tracked, key=lambda k: (tracked[k]["file"], tracked[k]["line"] or 0, k))
    oidx = {k: i for i, k in enumerate(okeys)}
    fkeys = sorted(keep, key=lambda k: (functions[k]["file"], functions[k]["line"] or 0, k))
    fidx = {k: i for i, k in enumerate(fkeys)}
    L = []
    L.append("import SodiumModel.Model.Globals")
    L.append("/-! GENERATED by tools_new/c2lean_globals.py from the clang-14 JSON AST of the %d .c files of the x86-64 build." % len(res["files"]))
    L.append("    Do not edit.  %d objects with static storage and non-const type; %d of %d functions with a body can reach an access"
             % (len(okeys), len(fkeys), len(functions)))
    L.append("    to one of them (the others are pruned); %d exported (SODIUM_EXPORT) functions, %d of them in the table. -/"
             % (len(api), sum(1 for k in fkeys if k in api)))
    L.append("namespace Generated.Globals")
    L.append("open Sodium.Model.Globals")
    L.append("")
    L.append("def objs : List Obj := [")
    rows = []
    for k in okeys:
        o = tracked[k]
        rows.append("  /- %3d -/ ⟨%s, %s, %s, %s, %s⟩" % (oidx[k], lean_str(k), lean_str(o["file"]),
                    "true" if o["tls"] else "false", "true" if o["volatile"] else "false", "true" if o["mutex"] else "false"))
    L.append(",\n".join(rows) + "]")
    L.append("")
    lk = {"inherit": ".inherit", "held": ".held", "released": ".released"}

    def gd(gs):
        return "true" if flag_key in gs else "false"
    chunks = []
    for k in fkeys:
        f = functions[k]
        seen, accs = set(), []
        for a in f["accesses"]:
            t = (oidx[a["obj"]], a["write"], a["lock"], gd(a["guards"]))
            if t in seen:
                continue
            seen.add(t)
            accs.append("⟨%d, %s, %s, %s⟩" % (t[0], "true" if t[1] else "false", lk[t[2]], t[3]))
        seen, calls = set(), []
        for c in f["calls"]:
            if c["callee"] not in fidx:
                continue
            t = (fidx[c["callee"]], c["lock"], gd(c["guards"]))
            if t in seen:
                continue
            seen.add(t)
            calls.append("⟨%d, %s, %s⟩" % (t[0], lk[t[1]], t[2]))
        chunks.append((k, "  /- %3d -/ ⟨%s, %s,\n      [%s],\n      [%s]⟩" % (
            fidx[k], lean_str(k), "true" if k in api else "false", ", ".join(accs), ", ".join(calls))))
    # split into blocks of 40 to keep each definition small
    blocks = [chunks[i:i + 40] for i in range(0, len(chunks), 40)]
    for bi, blk in enumerate(blocks):
        L.append("def fns%d : List Fn := [" % bi)
        L.append(",\n".join(c for _, c in blk) + "]")
        L.append("")
    L.append("def fns : List Fn := " + " ++ ".join("fns%d" % i for i in range(len(blocks))) if blocks else "def fns : List Fn := []")
    L.append("")
    L.append("/-- index of the phase flag `initialized` of sodium/core.c -/")
    L.append("def initFlag : Nat := %d" % oidx[flag_key])
    L.append("")
    L.append("def table : Table := ⟨objs, fns, initFlag⟩")
    L.append("")
    L.append("end Generated.Globals")
    os.makedirs(os.path.dirname(path), exist_ok=True)
    with open(path, "w") as fh:
        fh.write("\n".join(L) + "\n")
    return {"objects": okeys, "functions": fkeys, "oidx": oidx, "fidx": fidx}


def report(res, out=sys.stdout):
    tracked, functions = res["tracked"], res["functions"]
    w = out.write
    w("== %d tracked objects\n" % len(tracked))
    for k in sorted(tracked):
        o = tracked[k]
        rd = sorted({f["key"] + ("[%s%s]" % (a["lock"][0], "G" if a["guards"] else "")) for f in functions.values() for a in f["accesses"] if a["obj"] == k and not a["write"]})
        wr = sorted({f["key"] + ("[%s%s]" % (a["lock"][0], "G" if a["guards"] else "")) for f in functions.values() for a in f["accesses"] if a["obj"] == k and a["write"]})
        w("%-70s %s%s%s type=%s\n   W: %s\n   R: %s\n" % (k, "TLS " if o["tls"] else "", "volatile " if o["volatile"] else "", "mutex " if o["mutex"] else "",
                                                          o["type"], " ".join(wr) or "-", " ".join(rd)[:600] or "-"))
    w("== unresolved indirect calls\n")
    for f in functions.values():
        for u in sorted(set(f["indirect_unresolved"])):
            w("  %s: %s\n" % (f["key"], u))
    w("== functions whose lock context at exit differs from entry\n")
    for f in functions.values():
        if f["lock_ops"]:
            w("  %s: end=%s ops=%d\n" % (f["key"], f["end_lock"], f["lock_ops"]))
    w("== notes\n")
    for n in sorted(set(res["notes"])):
        w("  " + n + "\n")
    w("== assembly files (no AST; checked to define no writable data by the objdump cross-check): %s\n" % " ".join(res["asm"]))


def main():
    import argparse
    ap = argparse.ArgumentParser()
    ap.add_argument("--src", default=None, help="libsodium source dir (default /repo/src/libsodium)")
    ap.add_argument("--out", default=os.path.join(os.path.dirname(os.path.dirname(os.path.abspath(__file__))), "Generated", "Globals.lean"))
    ap.add_argument("--report", action="store_true")
    ap.add_argument("--json", default=None)
    a = ap.parse_args()
    res = analyse(a.src)
    info = emit(res, a.out)
    if a.report:
        report(res)
    if a.json:
        json.dump({"objects": info["objects"], "functions": info["functions"],
                   "tracked": res["tracked"],
                   "fn": {k: {"accesses": f["accesses"], "calls": f["calls"], "unresolved": f["indirect_unresolved"]} for k, f in res["functions"].items() if k in info["fidx"]}},
                  open(a.json, "w"), indent=1, default=list)
    print("wrote %s: %d objects, %d functions" % (a.out, len(info["objects"]), len(info["functions"])))


if __name__ == "__main__":
    main()
