#!/usr/bin/env python3
"""
Tie B translator (run on every C06 / C07 check, see vcore.tie_b_sc): transcribes sc25519_reduce / sc25519_mul / sc25519_muladd of
crypto_core/ed25519/ref10/ed25519_ref10.c into
  SodiumModel/Model/ScReduce.lean          (Int64 model, statement by statement)
  SodiumModel/Proofs/ScReduceGen.lean      (the same statements over Int, interval bounds, refinement lemmas)
It parses the C text with regular expressions; every C statement becomes one Lean `let`.
"""
import re, sys, os

SRC = open(os.path.join(os.environ.get('VERIF_REPO', '/repo'), 'src/libsodium/crypto_core/ed25519/ref10/ed25519_ref10.c')).read()
OUT = sys.argv[1] if len(sys.argv) > 1 else '/var/tmp/proofdev-sc'

def body(name):
    i = SRC.index('\n' + name + '(')
    j = SRC.index('{', i)
    k = SRC.index('\n}\n', j)
    return SRC[j + 1:k]

def blocks(text):
    return [b.strip('\n') for b in text.split('\n\n') if b.strip()]

def stmts(block):
    # join continuation lines, split at ';'
    t = ' '.join(l.strip() for l in block.splitlines())
    return [s.strip() for s in t.split(';') if s.strip()]

TAILMARK = '    s11 += s23 * 666643;'
red = body('sc25519_reduce'); mul = body('sc25519_mul'); mad = body('sc25519_muladd')
tail = red[red.index(TAILMARK):]
assert mul[mul.index(TAILMARK):] == tail and mad[mad.index(TAILMARK):] == tail
red_head = blocks(red[:red.index(TAILMARK)])
mul_head = blocks(mul[:mul.index(TAILMARK)])
mad_head = blocks(mad[:mad.index(TAILMARK)])
assert mul_head[-1] == mad_head[-1] and mul_head[-2] == mad_head[-2]
assert mul_head[0] == mad_head[0] and mul_head[1] == mad_head[1]
tail_blocks = blocks(tail)
assert len(tail_blocks) == 21

# ---------------------------------------------------------------- parsing
def parse_stmt(s):
    m = re.fullmatch(r'(s\d+) ([+-])= (s\d+) \* (\d+)', s)
    if m: return ('fold', m[1], m[2], m[3], int(m[4]))
    m = re.fullmatch(r'(s\d+) \+= (carry\d+)', s)
    if m: return ('addc', m[1], m[2])
    m = re.fullmatch(r'(carry\d+) = \((s\d+) \+ \(int64_t\) \(1L << 20\)\) >> 21', s)
    if m: return ('carryR', m[1], m[2])
    m = re.fullmatch(r'(carry\d+) = (s\d+) >> 21', s)
    if m: return ('carryF', m[1], m[2])
    m = re.fullmatch(r'(s\d+) -= (carry\d+) \* \(\(uint64_t\) 1L << 21\)', s)
    if m: return ('subc', m[1], m[2])
    m = re.fullmatch(r'(s\d+) = 0', s)
    if m: return ('zero', m[1])
    m = re.fullmatch(r'(s\d+) = (.*)', s)
    if m:
        terms = []
        for t in m[2].split('+'):
            t = t.strip()
            mm = re.fullmatch(r'(a\d+) \* (b\d+)', t)
            if mm: terms.append((mm[1], mm[2]))
            else:
                assert re.fullmatch(r'c\d+', t), t
                terms.append((t,))
        return ('prod', m[1], terms)
    raise ValueError(s)

def parse_load(s):
    # int64_t s1  = 2097151 & (load_4(s + 2) >> 5)
    m = re.fullmatch(r'int64_t (\w+)\s*= (2097151 & )?\(?load_(\d)\((\w)( \+ (\d+))?\)( >> (\d+))?\)?', s)
    assert m, s
    return (m[1], bool(m[2]), int(m[3]), m[4], int(m[6] or 0), int(m[8] or 0))

def parse_pack(s):
    # s[2]  = (s0 >> 16) | (s1 * ((uint64_t) 1 << 5))   |   s[0]  = s0 >> 0
    m = re.fullmatch(r's\[(\d+)\]\s*= \((s\d+) >> (\d+)\) \| \((s\d+) \* \(\(uint64_t\) 1 << (\d+)\)\)', s)
    if m: return (int(m[1]), m[2], int(m[3]), m[4], int(m[5]))
    m = re.fullmatch(r's\[(\d+)\]\s*= (s\d+) >> (\d+)', s)
    assert m, s
    return (int(m[1]), m[2], int(m[3]), None, None)

S = ['s%d' % i for i in range(24)]

# ---------------------------------------------------------------- emission of a block
def vars_of(st):
    k = st[0]
    if k == 'fold': return [st[1], st[3]], [st[1]]
    if k == 'addc': return [st[1]], [st[1]]
    if k == 'carryR' or k == 'carryF': return [st[2]], []
    if k == 'subc': return [st[1]], [st[1]]
    if k == 'zero': return [], [st[1]]
    raise ValueError(k)

def emit_stmt(st, ideal):
    k = st[0]
    if k == 'fold':
        return 'let %s := %s %s %s * %d' % (st[1], st[1], st[2], st[3], st[4])
    if k == 'addc':
        return 'let %s := %s + %s' % (st[1], st[1], st[2])
    if k == 'carryR':
        if ideal: return 'let %s := (%s + 1048576) / 2097152' % (st[1], st[2])
        return 'let %s := (%s + ((1 : Int64) <<< 20)) >>> 21' % (st[1], st[2])
    if k == 'carryF':
        if ideal: return 'let %s := %s / 2097152' % (st[1], st[2])
        return 'let %s := %s >>> 21' % (st[1], st[2])
    if k == 'subc':
        if ideal: return 'let %s := %s - %s * 2097152' % (st[1], st[1], st[2])
        return 'let %s := (%s.toUInt64 - %s.toUInt64 * ((1 : UInt64) <<< 21)).toInt64' % (st[1], st[1], st[2])
    if k == 'zero':
        return 'let %s := 0' % st[1]
    raise ValueError(k)

def emit_block(name, block, ideal):
    sts = [parse_stmt(s) for s in stmts(block)]
    used, written = [], []
    for st in sts:
        r, w = vars_of(st)
        for v in r:
            if v not in used and v not in written: used.append(v)
        for v in w:
            if v not in written: written.append(v)
    key = lambda v: int(v[1:])
    reads = sorted(set(used) | set(v for v in written if any(v in vars_of(st)[0] for st in sts)), key=key)
    # variables that are read before being (re)defined come from the state
    T = 'LimbsI' if ideal else 'Limbs'
    fn = name + ('I' if ideal else '')
    out = []
    if not ideal:
        out.append('/--\n```c\n' + block + '\n```\n-/')
    out.append('def %s (x : %s) : %s :=' % (fn, T, T))
    first_use = []
    defined = set()
    for st in sts:
        r, w = vars_of(st)
        for v in r:
            if v not in defined and v not in first_use: first_use.append(v)
        for v in w: defined.add(v)
    for v in sorted(first_use, key=key):
        out.append('  let %s := x.%s' % (v, v))
    for st in sts:
        out.append('  ' + emit_stmt(st, ideal))
    out.append('  { x with ' + ', '.join('%s := %s' % (v, v) for v in sorted(written, key=key)) + ' }')
    return '\n'.join(out), sts

# ---------------------------------------------------------------- interval analysis (mirrors the R_* lemmas)
def analyse(sts, B):
    """B: dict var -> symmetric bound (|v| <= B[v]); returns the new dict; asserts < 2^63 everywhere"""
    B = dict(B)
    lim = 2 ** 63
    carry = {}
    carry_src = {}
    for st in sts:
        k = st[0]
        if k == 'fold':
            p = B[st[3]] * st[4]; assert p < lim
            B[st[1]] = B[st[1]] + p; assert B[st[1]] < lim
        elif k == 'addc':
            B[st[1]] = B[st[1]] + carry[st[2]]; assert B[st[1]] < lim
        elif k == 'carryR':
            a = B[st[2]] + 1048576; assert a < lim
            carry[st[1]] = a // 2097152 + 1; carry_src[st[1]] = (st[2], 'R')
        elif k == 'carryF':
            a = B[st[2]]; assert a < lim
            carry[st[1]] = a // 2097152 + 1; carry_src[st[1]] = (st[2], 'F')
        elif k == 'subc':
            src, kind = carry_src[st[2]]
            assert src == st[1]
            B[st[1]] = 1048576 if kind == 'R' else 2097152
        elif k == 'zero':
            B[st[1]] = 0
        elif k == 'prod':
            t = 0
            for term in st[2]:
                if len(term) == 1: t += B[term[0]]
                else:
                    p = B[term[0]] * B[term[1]]; assert p < lim; t += p
                assert t < lim
            B[st[1]] = t
    return B

TAIL_NAMES = ['fold_s23', 'fold_s22', 'fold_s21', 'fold_s20', 'fold_s19', 'fold_s18',
              'carry_6_16', 'carry_7_15',
              'fold_s17', 'fold_s16', 'fold_s15', 'fold_s14', 'fold_s13', 'fold_s12_a',
              'carry_0_10', 'carry_1_11', 'fold_s12_b', 'carryF_0_11', 'fold_s12_c', 'carryF_0_10']

def limbs_lit(B, names=S):
    return '⟨' + ', '.join(str(B[v]) for v in names) + '⟩'

# ================================================================ MODEL FILE
M = []
M.append('''import SodiumModel.Basic
/-
  Model of the scalar limb arithmetic of
    crypto_core/ed25519/ref10/ed25519_ref10.c :  load_3, load_4, sc25519_reduce, sc25519_mul,
    sc25519_muladd, sc25519_sq, sc25519_sqmul, sc25519_invert
  transcribed STATEMENT BY STATEMENT (scripts/gen_sc.py parsed the C text; every C statement is one
  Lean `let`, the C text of every block is quoted in the doc comment above its transcription).

  `int64_t` is `Int64` (wrapping `+ - *`, arithmetic `>>>`), `uint64_t` is `UInt64`, `unsigned char`
  is `UInt8`.  The conversions the C compiler inserts are explicit:
    * `2097151 & load_3(s)`                    : computed in `uint64_t`, then converted to `int64_t`
    * `(int64_t) (1L << 20)`                    : `(1 : Int64) <<< 20`
    * `s6 -= carry6 * ((uint64_t) 1L << 21)`    : both operands are converted to `uint64_t`, the
                                                  difference is converted back to `int64_t`
    * `s[2] = (s0 >> 16) | (s1 * ((uint64_t) 1 << 5))` : `uint64_t` arithmetic, truncated to a byte.
  That none of the `Int64` operations overflows is a THEOREM (`Proofs/ScReduce*.lean`), not an
  assumption of the model.

  The three C functions end with the SAME 276 lines (from `s11 += s23 * 666643;` to the byte
  packing; the generator asserts textual identity), transcribed once as `reduce_tail`.
  The blank-line separated blocks of the C text are the `def`s below, composed in program order.
-/
namespace Sodium.Model.ScReduce
open Sodium

/-- `static inline uint64_t load_3(const unsigned char *in)` (`inp + off` is the pointer) -/
def load_3 (inp : Bytes) (off : Nat) : UInt64 :=
  let result : UInt64 := (inp[off]!).toUInt64
  let result := result ||| ((inp[off + 1]!).toUInt64 <<< 8)
  let result := result ||| ((inp[off + 2]!).toUInt64 <<< 16)
  result

/-- `static inline uint64_t load_4(const unsigned char *in)` -/
def load_4 (inp : Bytes) (off : Nat) : UInt64 :=
  let result : UInt64 := (inp[off]!).toUInt64
  let result := result ||| ((inp[off + 1]!).toUInt64 <<< 8)
  let result := result ||| ((inp[off + 2]!).toUInt64 <<< 16)
  let result := result ||| ((inp[off + 3]!).toUInt64 <<< 24)
  result

/-- the local variables `int64_t s0 … s23` -/
structure Limbs where
''')
M[-1] = M[-1].rstrip('\n')
for v in S: M.append('  %s : Int64' % v)
M.append('  deriving Repr, DecidableEq\n')
M.append('/-- twelve 21-bit limbs `a0 … a11` (resp. `b`, `c`) of a 32-byte operand -/\nstructure Limbs12 where')
for i in range(12): M.append('  l%d : Int64' % i)
M.append('  deriving Repr, DecidableEq\n')

def emit_load(block, structname, fname, argdoc, prefix):
    lds = [parse_load(s) for s in stmts(block)]
    out = ['/--\n```c\n' + block + '\n```\n-/', 'def %s (%s : Bytes) : %s :=' % (fname, 's', structname)]
    fields = []
    for (v, mask, n, p, off, sh) in lds:
        e = 'load_%d s %d' % (n, off)
        if sh: e = '(%s >>> %d)' % (e, sh)
        if mask: e = '((2097151 : UInt64) &&& %s).toInt64' % e
        else: e = '%s.toInt64' % e
        idx = int(re.sub(r'\D', '', v))
        fields.append('    %s := %s' % ((prefix + str(idx)), e))
    out.append('  {\n' + ',\n'.join(fields) + ' }')
    return '\n'.join(out), lds

t, red_loads = emit_load(red_head[0], 'Limbs', 'sc_load64', 's', 's')
M.append('/-! ### sc25519_reduce: the loads -/\n')
M.append(t + '\n')

M.append('/-! ### the common tail of sc25519_reduce / sc25519_mul / sc25519_muladd -/\n')
tail_sts = []
for nm, b in zip(TAIL_NAMES, tail_blocks[:20]):
    t, sts = emit_block(nm, b, False)
    tail_sts.append((nm, sts))
    M.append(t + '\n')

# pack
packs = [parse_pack(s) for s in stmts(tail_blocks[20])]
assert [p[0] for p in packs] == list(range(32))
pl = []
for (i, a, sh, b, shl) in packs:
    if b is None: pl.append('(%s >>> %d).toUInt64.toUInt8' % (a, sh))
    else: pl.append('((%s >>> %d).toUInt64 ||| (%s.toUInt64 * ((1 : UInt64) <<< %d))).toUInt8' % (a, sh, b, shl))
M.append('/--\n```c\n' + tail_blocks[20] + '\n```\nthe 32 bytes `s[0..32)`; `int64_t → unsigned char` is reduction modulo 256 -/')
M.append('def pack (x : Limbs) : Bytes :=')
for i in range(12): M.append('  let s%d := x.s%d' % (i, i))
M.append('  [ ' + ',\n    '.join(pl) + ' ]\n')

M.append('/-- the common tail, in program order -/')
M.append('def reduce_tail (x : Limbs) : Bytes :=')
for nm in TAIL_NAMES: M.append('  let x := %s x' % nm)
M.append('  pack x\n')
M.append('''/-- `void sc25519_reduce(unsigned char s[64])` : the 32 bytes written to `s[0..32)` -/
def sc25519_reduce (s : Bytes) : Bytes :=
  reduce_tail (sc_load64 s)
''')

# ---- mul / muladd heads
M.append('/-! ### sc25519_mul / sc25519_muladd: loads, schoolbook products, first carries -/\n')
t, mul_loads = emit_load(mul_head[0], 'Limbs12', 'sc_load32', 'a', 'l')
t = t.replace('```c\n', '```c\n/* and the same twelve statements for b (sc25519_mul) and for b, c (sc25519_muladd) */\n', 1)
M.append(t + '\n')
# check the b / c load blocks are the a block renamed
assert mul_head[1] == mul_head[0].replace('a', 'b').replace('lobd', 'load')
assert mad_head[2] == mad_head[0].replace('a', 'c').replace('locd', 'load')

def emit_prod(name, block, withc, ideal):
    sts = [parse_stmt(s) for s in stmts(block)]
    T12 = 'Limbs12I' if ideal else 'Limbs12'
    T = 'LimbsI' if ideal else 'Limbs'
    out = []
    if not ideal: out.append('/--\n```c\n' + block + '\n```\n-/')
    args = '(a b c : %s)' % T12 if withc else '(a b : %s)' % T12
    out.append('def %s%s %s : %s :=' % (name, 'I' if ideal else '', args, T))
    for p in (['a', 'b', 'c'] if withc else ['a', 'b']):
        for i in range(12): out.append('  let %s%d := %s.l%d' % (p, i, p, i))
    for st in sts:
        if st[0] == 'zero': out.append('  let %s := 0' % st[1])
        else:
            out.append('  let %s := %s' % (st[1], ' + '.join(' * '.join(t) for t in st[2])))
    out.append('  ⟨' + ', '.join(S) + '⟩')
    return '\n'.join(out), sts

t, mul_prod_sts = emit_prod('mul_products', mul_head[4], False, False); M.append(t + '\n')
t, mad_prod_sts = emit_prod('muladd_products', mad_head[5], True, False); M.append(t + '\n')
t, mc_even = emit_block('mul_carry_0_22', mul_head[5], False); M.append(t + '\n')
t, mc_odd = emit_block('mul_carry_1_21', mul_head[6], False); M.append(t + '\n')
M.append('''/-- `void sc25519_mul(unsigned char s[32], const unsigned char a[32], const unsigned char b[32])` -/
def sc25519_mul (a b : Bytes) : Bytes :=
  let x := mul_products (sc_load32 a) (sc_load32 b)
  let x := mul_carry_0_22 x
  let x := mul_carry_1_21 x
  reduce_tail x

/-- `void sc25519_muladd(unsigned char s[32], a, b, c)` : (ab + c) mod l -/
def sc25519_muladd (a b c : Bytes) : Bytes :=
  let x := muladd_products (sc_load32 a) (sc_load32 b) (sc_load32 c)
  let x := mul_carry_0_22 x
  let x := mul_carry_1_21 x
  reduce_tail x

/-- `static inline void sc25519_sq(unsigned char *s, const unsigned char *a)` : `sc25519_mul(s, a, a)` -/
def sc25519_sq (a : Bytes) : Bytes := sc25519_mul a a

/-- `sc25519_sqmul(s, n, a)` : `for (i = 0; i < n; i++) sc25519_sq(s, s); sc25519_mul(s, s, a);` -/
def sc25519_sqmul (s : Bytes) (n : Nat) (a : Bytes) : Bytes :=
  sc25519_mul (Nat.repeat sc25519_sq n s) a
''')

# invert
inv = body('sc25519_invert')
inv_sts = [s for s in stmts('\n'.join(blocks(inv)[1:]))]
M.append('/--\n```c\n' + '\n\n'.join(blocks(inv)[1:]) + '\n```\n-/')
M.append('def sc25519_invert (s : Bytes) : Bytes :=')
def lv(n): return 'recip' if n == 'recip' else ('s' if n == 's' else 'x' + n)
for st in inv_sts:
    m = re.fullmatch(r'sc25519_sq\((\w+), (\w+)\)', st)
    if m: M.append('  let %s := sc25519_sq %s' % (lv(m[1]), lv(m[2]))); continue
    m = re.fullmatch(r'sc25519_mul\((\w+), (\w+), (\w+)\)', st)
    if m: M.append('  let %s := sc25519_mul %s %s' % (lv(m[1]), lv(m[2]), lv(m[3]))); continue
    m = re.fullmatch(r'sc25519_sqmul\((\w+), (\d+), (\w+)\)', st)
    assert m, st
    M.append('  let %s := sc25519_sqmul %s %s %s' % (lv(m[1]), lv(m[1]), m[2], lv(m[3])))
M.append('  recip\n')
M.append('end Sodium.Model.ScReduce')
os.makedirs(OUT + '/SodiumModel/Model', exist_ok=True)
open(OUT + '/SodiumModel/Model/ScReduce.lean', 'w').write('\n'.join(M) + '\n')

# ================================================================ GENERATED PROOF FILE
G = []
G.append('''import SodiumModel.Model.ScReduce
import SodiumModel.Proofs.ScReduceBase
set_option linter.unusedVariables false
/-
  GENERATED by scripts/gen_sc.py — the ideal (unbounded `Int`) counterparts of the blocks of
  `Model/ScReduce.lean` (same statements, `>> 21` is floor division by 2^21), the symmetric interval
  bounds of every limb after every block, and the refinement lemmas
     `RL x y B  →  RL (block x) (blockI y) B'`
  (`RL x y B`: every limb of `x : Limbs` is the `Int64` image of the corresponding limb of `y : LimbsI`
  and is bounded in absolute value by the limb of `B`).  The proofs are explicit applications of the `R_*`
  lemmas of `Proofs/ScReduceBase.lean`, produced by symbolic execution of the C statements; the side
  conditions are closed numerals (`decide`).  Also generated: the represented integer `valN`, the value lemmas
  `*_val` (each block preserves the represented integer modulo l), the ideal loads, the packing identity.
-/
namespace Sodium.ScReduceP
open Sodium Sodium.Model.ScReduce
''')

def proof_terms(sts, T):
    """T: dict var -> proof term of `R var ideal bound`; symbolic execution of the block"""
    T = dict(T); carry = {}; carry_src = {}
    D = '(by decide)'
    for st in sts:
        k = st[0]
        if k == 'fold':
            lem = 'R_add' if st[2] == '+' else 'R_sub'
            T[st[1]] = '(%s %s (R_mulc_%d %s %s) %s)' % (lem, T[st[1]], st[4], T[st[3]], D, D)
        elif k == 'addc':
            T[st[1]] = '(R_add %s %s %s)' % (T[st[1]], carry[st[2]], D)
        elif k == 'carryR':
            carry[st[1]] = '(R_carryR %s %s)' % (T[st[2]], D); carry_src[st[1]] = (T[st[2]], 'R')
        elif k == 'carryF':
            carry[st[1]] = '(R_carryF %s)' % T[st[2]]; carry_src[st[1]] = (T[st[2]], 'F')
        elif k == 'subc':
            src, kind = carry_src[st[2]]
            T[st[1]] = '(R_carryR_lo %s %s)' % (src, D) if kind == 'R' else '(R_carryF_lo %s)' % src
        elif k == 'zero':
            T[st[1]] = 'R_zero'
        elif k == 'prod':
            acc = None
            for term in st[2]:
                e = T[term[0]] if len(term) == 1 else '(R_mul %s %s %s)' % (T[term[0]], T[term[1]], D)
                acc = e if acc is None else '(R_add %s %s %s)' % (acc, e, D)
            T[st[1]] = acc
    return T

def emit_ref(nm, Bin_name, Bout_name, sts):
    hs = ', '.join('h%d' % i for i in range(24))
    T = proof_terms(sts, {('s%d' % i): 'h%d' % i for i in range(24)})
    ss = ', '.join('s%d' % i for i in range(24)); ii = ', '.join('i%d' % i for i in range(24))
    out = ('theorem %s_ref {x : Limbs} {y : LimbsI} (h : RL x y %s) : RL (%s x) (%sI y) %s := by\n'
            '  obtain ⟨%s⟩ := x\n  obtain ⟨%s⟩ := y\n'
            '  obtain ⟨%s⟩ := h\n'
            '  dsimp only at %s\n'
            '  refine ⟨%s⟩ <;> dsimp only [%s, %sI]\n') % (
            nm, Bin_name, nm, nm, Bout_name, ss, ii, hs, hs.replace(',', ''), ', '.join(['?_'] * 24), nm, nm)
    for v in S:
        out += '  · exact R_weaken %s (by decide)\n' % T[v]
    return out

# tail, from the generic entry bound
Bin = {v: 2 ** 27 for v in S}; Bin["s23"] = 2 ** 30
G.append('/-! ### the common tail -/\n')
G.append('/-- entry condition of the tail: `|s_i| ≤ 2^27` (i < 23), `|s23| ≤ 2^30` -/')
G.append('def BT0 : LimbsN := ' + limbs_lit(Bin) + '\n')
B = Bin
allB = [B]
for k, (nm, b) in enumerate(zip(TAIL_NAMES, tail_blocks[:20])):
    t, sts = emit_block(nm, b, True)
    G.append(t + '\n')
    B = analyse(sts, B); allB.append(B)
    G.append('def BT%d : LimbsN := %s\n' % (k + 1, limbs_lit(B)))
    G.append(emit_ref(nm, 'BT%d' % k, 'BT%d' % (k + 1), sts))
G.append('/-- the ideal tail, in program order (without the packing) -/')
G.append('def tailI (y : LimbsI) : LimbsI :=')
for nm in TAIL_NAMES: G.append('  let y := %sI y' % nm)
G.append('  y\n')
G.append('/-- the machine tail without the packing -/')
G.append('def tailM (x : Limbs) : Limbs :=')
for nm in TAIL_NAMES: G.append('  let x := %s x' % nm)
G.append('  x\n')
G.append('theorem reduce_tail_eq (x : Limbs) : reduce_tail x = pack (tailM x) := rfl\n')
G.append('theorem tail_ref {x : Limbs} {y : LimbsI} (h : RL x y BT0) : RL (tailM x) (tailI y) BT20 := by')
G.append('  unfold tailM tailI')
G.append('  exact ' + ' ('.join('%s_ref' % nm for nm in reversed(TAIL_NAMES)) + ' h' + ')' * (len(TAIL_NAMES) - 1) + '\n')

# partial compositions for the Int-level analysis: states after block k
G.append('/-! ### the states after the first `k` blocks -/\n')
G.append('def tailI0 (y : LimbsI) : LimbsI := y')
G.append('def tailM0 (x : Limbs) : Limbs := x')
for k, nm in enumerate(TAIL_NAMES):
    G.append('def tailI%d (y : LimbsI) : LimbsI := %sI (tailI%d y)' % (k + 1, nm, k))
    G.append('def tailM%d (x : Limbs) : Limbs := %s (tailM%d x)' % (k + 1, nm, k))
G.append('')
G.append('theorem tailM_eq (x : Limbs) : tailM x = tailM20 x := rfl')
G.append('theorem tailI_eq (y : LimbsI) : tailI y = tailI20 y := rfl\n')
# values
G.append('/-! ### the integer represented by the low `n` limbs (radix 2^21) -/\n')
for n in range(12, 25):
    G.append('def val%d (y : LimbsI) : Int :=\n  ' % n + ' + '.join(('y.s%d * %d' % (i, 2 ** (21 * i))) if i else 'y.s0' for i in range(n)) + '\n')
for k in range(1, 21):
    G.append('theorem tail_ref_%d {x : Limbs} {y : LimbsI} (h : RL x y BT0) : RL (tailM%d x) (tailI%d y) BT%d :=' % (k, k, k, k))
    G.append('  %s_ref %s\n' % (TAIL_NAMES[k - 1], 'h' if k == 1 else '(tail_ref_%d h)' % (k - 1)))
# value lemmas
LL = 2 ** 252 + 27742317777372353535851937790883648493
G.append('/-- the group order l = 2^252 + 27742317777372353535851937790883648493, as an `Int` literal -/')
G.append('def Lz : Int := %d\n' % LL)
ii = ', '.join('i%d' % i for i in range(24))
VAL = [('fold_s23', 24, 23, 23), ('fold_s22', 23, 22, 22), ('fold_s21', 22, 21, 21), ('fold_s20', 21, 20, 20),
       ('fold_s19', 20, 19, 19), ('fold_s18', 19, 18, 18), ('carry_6_16', 18, 18, None), ('carry_7_15', 18, 18, None),
       ('fold_s17', 18, 17, 17), ('fold_s16', 17, 16, 16), ('fold_s15', 16, 15, 15), ('fold_s14', 15, 14, 14),
       ('fold_s13', 14, 13, 13), ('fold_s12_a', 13, 13, 12), ('carry_0_10', 13, 13, None), ('carry_1_11', 13, 13, None),
       ('fold_s12_b', 13, 13, 12), ('carryF_0_11', 13, 13, None), ('fold_s12_c', 13, 12, 12), ('carryF_0_10', 12, 12, None)]
assert [v[0] for v in VAL] == TAIL_NAMES
G.append('/-! ### every block preserves the represented integer modulo l (`fold_step_spec`, `carry_step_spec`)')
G.append('    a fold block replaces `s_j · 2^(21 j)` by `s_j · 2^(21 (j - 12)) · (2^252 - l)`; the six constants')
G.append('    666643, 470296, 654183, -997805, 136657, -683901 are the signed radix-2^21 digits of 2^252 - l -/\n')
for (nm, nin, nout, j) in VAL:
    if j is None:
        G.append('theorem %s_val (y : LimbsI) : val%d (%sI y) = val%d y := by' % (nm, nout, nm, nin))
    else:
        G.append('theorem %s_val (y : LimbsI) : val%d (%sI y) = val%d y - y.s%d * %d * Lz := by' % (nm, nout, nm, nin, j, 2 ** (21 * (j - 12))))
    G.append('  obtain ⟨%s⟩ := y' % ii)
    vs_ = 'val%d, val%d' % (nin, nout) if nin != nout else 'val%d' % nin
    G.append('  simp only [%s, %sI%s]' % (vs_, nm, '' if j is None else ', Lz'))
    G.append('  omega\n')
# chain
G.append('/-- the whole tail (without the packing) preserves the represented integer modulo l -/')
G.append('theorem tailI_val_emod (y : LimbsI) : val12 (tailI20 y) % Lz = val24 y % Lz :=')
terms = []
for k in range(20, 0, -1):
    (nm, nin, nout, j) = VAL[k - 1]
    terms.append('(%s (%s_val (tailI%d y)))' % ('emod_of_eq' if j is None else 'emod_of_sub_mul', nm, k - 1))
G.append('  ' + '.trans\n  ('.join(terms) + ')' * (len(terms) - 1) + '\n')

# ---------------------------------------------------------------- loads: ideal limbs, refinement, value
def emit_loadI(fname, lds, structI, structname, fields, Bname, Bfields, nbytes, top_lt):
    out = []
    exprs = []; proofs = []
    for (v, mask, n, pch, off, sh), f in zip(lds, fields):
        bs = ' '.join('(byteN s %d)' % (off + j) for j in range(n))
        d = 2 ** sh
        if mask:
            e = 'limb%d %s %d' % (n, bs, d)
            lt = 'limb%d_lt _ _ _ %s_' % (n, '_ ' if n == 4 else '')
            ld = 'load_%d s %d' % (n, off)
            if sh:
                h = ('show (((2097151 : UInt64) &&& (%s >>> %d)).toInt64).toInt = _\n      rw [mask_toInt, shr_toNat _ %d %d rfl, load_%d_toNat]; rfl'
                     % (ld, sh, sh, sh, n))
            else:
                h = ('show (((2097151 : UInt64) &&& (%s)).toInt64).toInt = _\n      rw [mask_toInt, load_%d_toNat, limb%d, Nat.div_one]; rfl'
                     % (ld, n, n))
            proofs.append('    R_of_nat (by\n      %s)\n      (Nat.le_of_lt (Nat.lt_of_lt_of_le (%s) (by decide)))' % (h, lt))
        else:
            assert n == 4 and sh
            e = 'top4 %s %d' % (bs, d)
            blt = ' '.join('(byteN_lt s %d)' % (off + j) for j in range(4))
            h = ('show ((load_4 s %d >>> %d).toInt64).toInt = _\n'
                 '      have h : (load_4 s %d >>> %d).toNat = %s := by\n'
                 '        rw [shr_toNat _ %d %d rfl, load_4_toNat]; rfl\n'
                 '      have := w4_lt s %d\n'
                 '      rw [toInt_toInt64_of_lt _ (by rw [shr_toNat _ %d %d rfl, load_4_toNat]; omega), h]'
                 % (off, sh, off, sh, e, sh, sh, off, sh, sh))
            proofs.append('    R_of_nat (by\n      %s)\n      (Nat.le_of_lt (Nat.lt_of_lt_of_le (%s _ _ _ _ %s) (by decide)))' % (h, top_lt, blt))
        exprs.append('((%s : Nat) : Int)' % e)
    out.append('/-- the ideal limbs: bits 21 i … 21 i + 20 of the little-endian integer -/')
    out.append('def %sI (s : Bytes) : %s :=\n  ⟨' % (fname, structI) + ',\n   '.join(exprs) + '⟩\n')
    out.append('theorem %s_ref (s : Bytes) : %s (%s s) (%sI s) %s :=\n  ⟨' % (fname, 'RL' if structname == 'Limbs' else 'RL12', fname, fname, Bname)
               + ',\n'.join(proofs).lstrip() + '⟩\n')
    return '\n'.join(out)

G_load = []
G_load.append('/-! ### the loads (`load_spec`) -/\n')
G_load.append(emit_loadI('sc_load64', red_loads, 'LimbsI', 'Limbs', S, 'BT0', S, 64, 'top4_lt29'))
G_load.append('def val12L (y : Limbs12I) : Int :=\n  ' + ' + '.join(('y.l%d * %d' % (i, 2 ** (21 * i))) if i else 'y.l0' for i in range(12)) + '\n')
G_load.append(emit_loadI('sc_load32', mul_loads, 'Limbs12I', 'Limbs12', ['l%d' % i for i in range(12)], 'BL12', None, 32, 'top4_lt25'))
def chunk_call(name, off, n):
    return '%s %s %s' % (name, ' '.join('(byteN s %d)' % (off + j) for j in range(n)), ' '.join('(byteN_lt s %d)' % (off + j) for j in range(n)))

def emit_range(fname, lds, fields, top_lt, topbits):
    out = ['/-- `load_spec`, ranges: every limb is in [0, 2^21), the unmasked top limb in [0, 2^%d) -/' % topbits]
    props = []; proofs = []
    for (v, mask, n, pch, off, sh), f in zip(lds, fields):
        if mask:
            props.append('(0 ≤ (%sI s).%s ∧ (%sI s).%s < 2097152)' % (fname, f, fname, f))
            proofs.append('nat_range _ _ (limb%d_lt _ _ _ %s_)' % (n, '_ ' if n == 4 else ''))
        else:
            props.append('(0 ≤ (%sI s).%s ∧ (%sI s).%s < %d)' % (fname, f, fname, f, 2 ** topbits))
            blt = ' '.join('(byteN_lt s %d)' % (off + j) for j in range(4))
            proofs.append('nat_range _ _ (%s _ _ _ _ %s)' % (top_lt, blt))
    out.append('theorem %s_range (s : Bytes) :\n    ' % fname + ' ∧\n    '.join(props) + ' :=\n  ⟨' + ',\n   '.join(proofs) + '⟩\n')
    return '\n'.join(out)
G_load.append(emit_range('sc_load64', red_loads, S, 'top4_lt29', 29))
G_load.append(emit_range('sc_load32', mul_loads, ['l%d' % i for i in range(12)], 'top4_lt25', 25))
G_load.append('/-- `load_spec`: the 24 limbs represent the 64-byte little-endian integer -/')
G_load.append('theorem sc_load64_val (s : Bytes) (hs : s.length = 64) : val24 (sc_load64I s) = (le s : Int) := by')
G_load.append('  have c1 := ' + chunk_call('chunk8', 0, 21))
G_load.append('  have c2 := ' + chunk_call('chunk8', 21, 21))
G_load.append('  have c3 := ' + chunk_call('chunk8top', 42, 22))
G_load.append('  rw [le_eq_bytes64 s hs]\n  simp only [val24, sc_load64I]\n  clear hs\n  omega\n')
G_load.append('theorem sc_load32_val (s : Bytes) (hs : s.length = 32) : val12L (sc_load32I s) = (le s : Int) := by')
G_load.append('  have c1 := ' + chunk_call('chunk8', 0, 21))
G_load.append('  have c2 := ' + chunk_call('chunk4top', 21, 11))
G_load.append('  rw [le_eq_bytes32 s hs]\n  simp only [val12L, sc_load32I]\n  clear hs\n  omega\n')

# mul head
G.append('/-! ### sc25519_mul / sc25519_muladd heads -/\n')
B12 = {('%s%d' % (p, i)): (2 ** 21 if i < 11 else 2 ** 25) for p in 'abc' for i in range(12)}
G.append('def BL12 : Limbs12N := ⟨' + ', '.join(str(B12['a%d' % i]) for i in range(12)) + '⟩\n')
t, _ = emit_prod('mul_products', mul_head[4], False, True); G.append(t + '\n')
t, _ = emit_prod('muladd_products', mad_head[5], True, True); G.append(t + '\n')
Bm = analyse(mul_prod_sts, B12); Bm = {v: Bm[v] for v in S}
Bma = analyse(mad_prod_sts, B12); Bma = {v: Bma[v] for v in S}
assert all(Bm[v] <= Bma[v] for v in S)
G.append('def BM0 : LimbsN := ' + limbs_lit(Bma) + '\n')
hs = lambda p: ', '.join('h%s%d' % (p, i) for i in range(12))
vs = lambda p: ', '.join('%s%d' % (p, i) for i in range(12))
T12 = {('%s%d' % (p, i)): 'h%s%d' % (p, i) for p in 'abc' for i in range(12)}
G.append('theorem mul_products_ref {a b : Limbs12} {a\' b\' : Limbs12I} (ha : RL12 a a\' BL12) (hb : RL12 b b\' BL12) :\n'
         '    RL (mul_products a b) (mul_productsI a\' b\') BM0 := by\n'
         '  obtain ⟨%s⟩ := a\n  obtain ⟨%s⟩ := b\n  obtain ⟨%s⟩ := a\'\n  obtain ⟨%s⟩ := b\'\n'
         '  obtain ⟨%s⟩ := ha\n  obtain ⟨%s⟩ := hb\n  dsimp only at %s %s\n'
         '  refine ⟨%s⟩ <;> dsimp only [mul_products, mul_productsI]\n' % (vs('a'), vs('b'), vs('ia'), vs('ib'), hs('a'), hs('b'), hs('a').replace(',',''), hs('b').replace(',',''), ', '.join(['?_'] * 24))
         + ''.join('  · exact R_weaken %s (by decide)\n' % proof_terms(mul_prod_sts, T12)[v] for v in S))
G.append('theorem muladd_products_ref {a b c : Limbs12} {a\' b\' c\' : Limbs12I} (ha : RL12 a a\' BL12) (hb : RL12 b b\' BL12)\n'
         '    (hc : RL12 c c\' BL12) : RL (muladd_products a b c) (muladd_productsI a\' b\' c\') BM0 := by\n'
         '  obtain ⟨%s⟩ := a\n  obtain ⟨%s⟩ := b\n  obtain ⟨%s⟩ := c\n  obtain ⟨%s⟩ := a\'\n  obtain ⟨%s⟩ := b\'\n  obtain ⟨%s⟩ := c\'\n'
         '  obtain ⟨%s⟩ := ha\n  obtain ⟨%s⟩ := hb\n  obtain ⟨%s⟩ := hc\n  dsimp only at %s %s %s\n'
         '  refine ⟨%s⟩ <;> dsimp only [muladd_products, muladd_productsI]\n' % (vs('a'), vs('b'), vs('c'), vs('ia'), vs('ib'), vs('ic'), hs('a'), hs('b'), hs('c'), hs('a').replace(',',''), hs('b').replace(',',''), hs('c').replace(',',''), ', '.join(['?_'] * 24))
         + ''.join('  · exact R_weaken %s (by decide)\n' % proof_terms(mad_prod_sts, T12)[v] for v in S))
t, _ = emit_block('mul_carry_0_22', mul_head[5], True); G.append(t + '\n')
Bm1 = analyse(mc_even, Bma)
G.append('def BM1 : LimbsN := ' + limbs_lit(Bm1) + '\n')
G.append(emit_ref('mul_carry_0_22', 'BM0', 'BM1', mc_even))
t, _ = emit_block('mul_carry_1_21', mul_head[6], True); G.append(t + '\n')
Bm2 = analyse(mc_odd, Bm1)
G.append('def BM2 : LimbsN := ' + limbs_lit(Bm2) + '\n')
G.append(emit_ref('mul_carry_1_21', 'BM1', 'BM2', mc_odd))
assert all(Bm2[v] <= Bin[v] for v in S), Bm2

# ---------------------------------------------------------------- packing
def bexpr(pk, lit=True):
    i, a, sh, b, m = pk
    na = 'n' + a[1:]
    if b is None: return '%s / %d %% 256' % (na, 2 ** sh)
    return '(%s / %d + n%s * %d) %% 256' % (na, 2 ** sh, b[1:], 2 ** m)
rhs = '0'
for pk in reversed(packs): rhs = '%s + 256 * (%s)' % (bexpr(pk), rhs)
valn = ' + '.join(('n%d * %d' % (i, 2 ** (21 * i))) if i else 'n0' for i in range(12))
hyn = ' '.join('(h%d : n%d < 2097152)' % (i, i) for i in range(11)) + ' (h11 : n11 ≤ 2097152)'
ns = ' '.join('n%d' % i for i in range(12))
G_pack = []
G_pack.append('/-! ### the byte packing -/\n')
G_pack.append('/-- the 32 packed bytes are the little-endian digits of the integer represented by twelve limbs in [0, 2^21] -/')
G_pack.append('theorem packval (%s : Nat) %s :\n    %s = %s := by\n  omega\n' % (ns, hyn, rhs, valn))
G_pack.append('theorem pack_le (x : Limbs) (%s : Nat)\n    %s\n    %s :\n    le (pack x) = %s := by'
              % (ns, ' '.join('(e%d : x.s%d.toInt = n%d)' % (i, i, i) for i in range(12)), hyn, valn))
G_pack.append('  simp only [pack, le]')
rws = []
for (i, a, sh, b, m) in packs:
    if b is None: rws.append('pack_byteA %d %d rfl e%s' % (sh, sh, a[1:]))
    else: rws.append('pack_byteB %d %d rfl %d %d rfl e%s e%s (by omega) (by omega)' % (sh, sh, m, m, a[1:], b[1:]))
G_pack.append('  rw [' + ',\n    '.join(rws) + ']')
G_pack.append('  simp only [Nat.reducePow]')
G_pack.append('  exact packval %s %s\n' % (ns, ' '.join('h%d' % i for i in range(12))))
G.extend(G_load)
G.extend(G_pack)
G.append('/-- the largest of the 24 bounds -/')
G.append('def LimbsN.max (b : LimbsN) : Nat :=\n  [' + ', '.join('b.s%d' % i for i in range(24)) + '].foldl Nat.max 0\n')
G.append('/-- all interval bounds used by the refinement proof -/')
G.append('def allBounds : List LimbsN := [' + ', '.join('BT%d' % k for k in range(21)) + ', BM0, BM1, BM2]\n')
G.append('/-- every limb of every intermediate state is below 2^51 in absolute value: far from the `int64_t` limits -/')
G.append('theorem allBounds_lt : ∀ b ∈ allBounds, b.max < 2 ^ 51 := by decide\n')
for nm, blk in (('mul_carry_0_22', None), ('mul_carry_1_21', None)):
    G.append('theorem %s_val (y : LimbsI) : val24 (%sI y) = val24 y := by' % (nm, nm))
    G.append('  obtain ⟨%s⟩ := y' % ii)
    G.append('  simp only [val24, %sI]' % nm)
    G.append('  omega\n')
G.append('end Sodium.ScReduceP')
open(OUT + '/SodiumModel/Proofs/ScReduceGen.lean', 'w').write('\n'.join(G) + '\n')

# report the bounds
import math
for k, Bk in enumerate(allB):
    print(k, TAIL_NAMES[k - 1] if k else 'entry', ' '.join('%.1f' % (math.log2(Bk[v]) if Bk[v] else 0) for v in S))
print('mul', ' '.join('%.1f' % (math.log2(Bm2[v]) if Bm2[v] else 0) for v in S))
# canonicity margin: after fold_s12_b (block 17), |val12| < 2^252 ?
B17 = allB[17]
print('val12 after fold_s12_b <=', math.log2(sum(B17['s%d' % i] * 2 ** (21 * i) for i in range(12))))
