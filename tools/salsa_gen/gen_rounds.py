#!/usr/bin/env python3
"""Transcribes the straight-line loop bodies of xmm6int u1.h (= u0.h), u4.h, u8.h into Lean `let` chains.
   Every C statement `v = f(args);` / `v = w;` becomes one `let v := f args` line, in the order written."""
import re, sys
D = "/repo/src/libsodium/crypto_stream/salsa20/xmm6int/"

def stmts(path, lo, hi):
    out = []
    for ln in open(path).read().split("\n")[lo - 1:hi]:
        s = ln.strip()
        if not s or "=" not in s or s.startswith("/*") or s.startswith("*") or s.startswith("__m"):
            continue
        out.append(s)
    return out

def tr(s):
    m = re.fullmatch(r"(\w+)\s*=\s*(\w+);", s)
    if m:
        return "let %s := %s" % (m.group(1), m.group(2))
    m = re.fullmatch(r"(\w+)\s*=\s*_(mm(?:256)?_\w+)\(([^()]*)\);", s)
    if m:
        args = [a.strip() for a in m.group(3).split(",")]
        return "let %s := %s %s" % (m.group(1), m.group(2), " ".join(args))
    raise SystemExit("cannot transcribe: " + s)

def emit(name, path, lo, hi):
    ls = [tr(s) for s in stmts(path, lo, hi)]
    sys.stdout.write("-- BEGIN %s (%s lines %d-%d, %d statements)\n" % (name, path.split("/")[-1], lo, hi, len(ls)))
    for l in ls:
        sys.stdout.write("  " + l + "\n")
    sys.stdout.write("-- END %s\n" % name)

which = sys.argv[1]
if which == "row":
    emit("row", D + "u1.h", 15, 157)
elif which == "u4":
    emit("u4", D + "u4.h", 105, 359)
elif which == "u8":
    emit("u8", D + "u8.h", 105, 359)
