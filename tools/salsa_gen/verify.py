#!/usr/bin/env python3
"""Tie: the three straight-line loop bodies in SodiumModel/Model/SalsaSimd.lean are, line for line, what gen_rounds.py
   produces from the xmm6int headers as they are now (exit 0 and `0 differences` required)."""
import os, subprocess, sys
here = os.path.dirname(os.path.abspath(__file__))
model = open(os.path.join(here, "..", "SodiumModel", "Model", "SalsaSimd.lean")).read()
bad = 0
for which in ("row", "u4", "u8"):
    out = subprocess.run([sys.executable, os.path.join(here, "gen_rounds.py"), which], capture_output=True, text=True, check=True).stdout
    body = "".join(l + "\n" for l in out.split("\n") if l and not l.startswith("--"))
    n = body.count("\n")
    if body not in model:
        print("DIFFERENT: %s (%d statements) is not in the model verbatim" % (which, n)); bad += 1
    else:
        print("ok: %s, %d statements" % (which, n))
print("transcription check: %d differences" % bad)
sys.exit(1 if bad else 0)
