#!/usr/bin/env python3
"""C05 / C10 Tie B for the scalar assembly of the sandy2x X25519 backend.

tie_b(lean_dir, repo_src) -> (ok, message)
  1. runs tools_new/asm2lean.py on the CURRENT fe51_pack.S / fe51_mul.S / fe51_nsquare.S / consts.S under `repo_src`
     (…/src/libsodium) into a scratch file (a translator refusal is a failure: the model cannot be regenerated);
  2. identical to the committed `lean_dir/Generated/Sandy2xAsm.lean`: builds `SodiumModel.Properties.C05Asm` (incremental);
     different: installs the regenerated text, builds the same target against it and RESTORES the committed file afterwards;
  3. on failure reports Lean's first errors and which theorems they belong to, and EVALUATES the regenerated instruction lists
     (through the interpreter of Model/X86Scalar.lean) against the limb model on boundary inputs — small integers, p-k, 2^255-k,
     saturated limbs — printing the limb vectors on which `fe51_pack` / `fe51_mul` / `fe51_nsquare` now differ.
"""
import os, re, subprocess, sys, time

HERE = os.path.dirname(os.path.abspath(__file__))
sys.path.insert(0, HERE)
import asm2lean as G  # noqa: E402

TARGETS = ["SodiumModel.Properties.C05Asm", "SodiumModel.Properties.C05Asm2", "SodiumModel.Properties.C05Asm3"]
TARGET = " + ".join(TARGETS)
GEN_REL = os.path.join("Generated", "Sandy2xAsm.lean")

DIAG = r'''
import Generated.Sandy2xAsm
import SodiumModel.Model.Fe51
open Sodium Sodium.Model Sodium.Model.X86Scalar Sodium.Model.Fe51 Generated.Sandy2xAsm
def M : UInt64 := 0x7FFFFFFFFFFFF
def smalls : List Fe := (List.range 41).map fun i => ⟨UInt64.ofNat i, 0, 0, 0, 0⟩
def nearP : List Fe := (List.range 40).map fun i => ⟨M - UInt64.ofNat i, M, M, M, M⟩
def over : List Fe := (List.range 24).map fun i => ⟨M + 1 + UInt64.ofNat i * 977, M, M, M, M⟩
def sat : List Fe := [⟨M, M, M, M, M⟩, ⟨2*M+1, 2*M+1, 2*M+1, 2*M+1, 2*M+1⟩, ⟨M+19, M, M, M, M⟩, ⟨0, 0, 0, 0, M+1⟩,
  ⟨0, M+1, 0, 0, 0⟩, ⟨0, 0, M+1, 0, 0⟩, ⟨0, 0, 0, M+1, 0⟩, ⟨0x123456789abcd, 0x7edcba9876543, 0x1111111111111, 0x2222222222222, 0x3333333333333⟩,
  ⟨0x3fffffffffffff, 0x3fffffffffffff, 0x3fffffffffffff, 0x3fffffffffffff, 0x3fffffffffffff⟩]
def inputs : List Fe := smalls ++ nearP ++ over ++ sat
def showFe (f : Fe) : String := s!"[{f.l0.toNat}, {f.l1.toNat}, {f.l2.toNat}, {f.l3.toNat}, {f.l4.toNat}]"
def hexo : Option Bytes → String | none => "(fault / callee-saved registers not restored / out of fuel)" | some b => toHex b
def main : IO Unit := do
  let mut bad := 0
  for f in inputs do
    let a := callPack fe51_pack f
    if a != some (fe25519_tobytes f) then
      bad := bad + 1
      if bad ≤ 12 then IO.println s!"DIFF fe51_pack limbs={showFe f} asm={hexo a} model={toHex (fe25519_tobytes f)}"
  IO.println s!"PACK inputs={inputs.length} differing={bad}"
  let mut badm := 0
  for f in sat ++ smalls.take 4 do
    for g in sat ++ nearP.take 3 do
      let a := (callMul fe51_mul f g).map fe25519_tobytes
      if a != some (fe25519_tobytes (fe25519_mul f g)) then
        badm := badm + 1
        if badm ≤ 6 then IO.println s!"DIFF fe51_mul f={showFe f} g={showFe g} asm={hexo a} model={toHex (fe25519_tobytes (fe25519_mul f g))}"
  IO.println s!"MUL differing={badm}"
  let mut bads := 0
  for f in sat ++ smalls.take 4 ++ nearP.take 3 do
    for n in [1, 2, 5] do
      let a := (callNsquare fe51_nsquare f n).map fe25519_tobytes
      if a != some (fe25519_tobytes (sqN n.toNat f)) then
        bads := bads + 1
        if bads ≤ 6 then IO.println s!"DIFF fe51_nsquare f={showFe f} n={n} asm={hexo a} model={toHex (fe25519_tobytes (sqN n.toNat f))}"
  IO.println s!"NSQUARE differing={bads}"
#eval main
'''


def failing_theorems(lean_dir, log):
    out = []
    for m in re.finditer(r"(SodiumModel/(?:Properties|Proofs)/[A-Za-z0-9_]+\.lean):(\d+):\d+", log):
        path, ln = os.path.join(lean_dir, m.group(1)), int(m.group(2))
        try:
            src = open(path).read().split("\n")
        except OSError:
            continue
        for i in range(min(ln, len(src)) - 1, -1, -1):
            mm = re.match(r"^(?:private )?(theorem|example|def)\s*(\S*)", src[i])
            if mm:
                out.append("%s (%s:%d)" % (mm.group(2) or "example", os.path.basename(path), i + 1))
                break
    seen, res = set(), []
    for x in out:
        if x not in seen:
            seen.add(x); res.append(x)
    return res


def diagnose(lean_dir, outdir):
    q = subprocess.run(["lake", "build", "Generated.Sandy2xAsm"], cwd=lean_dir, capture_output=True, text=True)
    if q.returncode != 0:
        return "Generated/Sandy2xAsm.lean does not compile:\n" + (q.stdout + q.stderr)[-2000:]
    diag = os.path.join(outdir, "c05_asm_diag.lean")
    open(diag, "w").write(DIAG)
    d = subprocess.run(["lake", "env", "lean", diag], cwd=lean_dir, capture_output=True, text=True)
    return (d.stdout + d.stderr).strip()[-6000:]


def tie_b(lean_dir, repo_src, asm_dir=None, outdir=None):
    t0 = time.time()
    lean_dir = os.path.abspath(lean_dir)
    outdir = outdir or os.path.join(lean_dir, "out", "tieb_c05_asm")
    os.makedirs(outdir, exist_ok=True)
    try:
        text, info = G.generate(repo_src, asm_dir)
    except G.Refuse as e:
        return False, "translator REFUSED the current assembly source (the model cannot be regenerated): %s" % e
    except OSError as e:
        return False, "translator could not read the source: %s" % e
    gen = os.path.join(lean_dir, GEN_REL)
    committed = open(gen).read() if os.path.exists(gen) else None
    differs = committed != text
    open(os.path.join(outdir, "Sandy2xAsm.regenerated.lean"), "w").write(text)
    try:
        if differs:
            open(gen, "w").write(text)
        p = subprocess.run(["lake", "build"] + TARGETS, cwd=lean_dir, capture_output=True, text=True)
        log = p.stdout + p.stderr
        if p.returncode == 0:
            return True, "%s; regenerated text %s the committed Generated/Sandy2xAsm.lean; lake build %s ok; %.1fs" % (
                ", ".join("%s %d instructions" % (k, v["instructions"]) for k, v in info.items()),
                "DIFFERS from (theorems re-proved against the new text)" if differs else "is identical to", TARGET, time.time() - t0)
        errs = re.findall(r"error: [^\n]*\.lean:\d+:\d+:[^\n]*(?:\n(?!error:|✖|✔|ℹ|⚠)[^\n]*){0,8}", log)
        msg = "lake build %s FAILED against the instruction lists regenerated from the current .S text\n" % TARGET
        msg += "  theorems that no longer re-check: %s\n" % (", ".join(failing_theorems(lean_dir, log)) or "?")
        msg += "  Lean says (first errors):\n" + "\n".join("    " + x.replace("\n", "\n    ")[:900] for x in errs[:3]) + "\n"
        msg += "  evaluation of the REGENERATED model against the limb model on boundary inputs:\n"
        msg += "\n".join("    " + l for l in diagnose(lean_dir, outdir).split("\n"))
        return False, msg
    finally:
        if differs:
            if committed is not None:
                open(gen, "w").write(committed)
            else:
                os.unlink(gen)
            subprocess.run(["lake", "build"] + TARGETS, cwd=lean_dir, capture_output=True, text=True)   # back to the committed state


if __name__ == "__main__":
    import argparse
    ap = argparse.ArgumentParser()
    ap.add_argument("--lean", default=os.path.join(HERE, ".."))
    ap.add_argument("--src", default="/repo/src/libsodium")
    ap.add_argument("--asm-dir", default=None, help="directory holding the .S files (default: <src>/crypto_scalarmult/curve25519/sandy2x)")
    a = ap.parse_args()
    ok, msg = tie_b(a.lean, a.src, a.asm_dir)
    print(("OK: " if ok else "FAIL: ") + msg)
    sys.exit(0 if ok else 1)
