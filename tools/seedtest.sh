#!/bin/bash
# usage: tools/seedtest.sh seeded/<dir> <Cxx> [tier]
# Runs the check against a seeded change. Default: in a scratch git worktree of /repo with the patch applied (VERIF_REPO points the
# build at it; evidence / replays go to a scratch VERIF_OUT), so that other runs building from /repo are not disturbed.
# With SEED_IN_REPO=1: applies the patch to /repo itself, runs, and restores /repo (git checkout -- .).
set -u
d=$1; prop=$2; tier=${3:-quick}
if [ "${SEED_IN_REPO:-0}" = 1 ]; then
  cd /repo && git diff --quiet || { echo "/repo not clean"; exit 3; }
  git -C /repo apply "/verif/$d/patch.diff" || { echo "patch does not apply"; exit 3; }
  cd /verif && python3 tools/check.py "$prop" --tier "$tier" > /tmp/seedtest-$$.out 2>&1; rc=$?
  git -C /repo checkout -- .
else
  wt=/var/tmp/seedwt-$$; out=/var/tmp/seedout-$$
  git -C /repo worktree add -q --detach $wt HEAD || exit 3
  cp /repo/Makefile $wt/Makefile
  git -C $wt apply "/verif/$d/patch.diff" || { echo "patch does not apply"; git -C /repo worktree remove --force $wt; exit 3; }
  cd /verif && VERIF_REPO=$wt VERIF_OUT=$out python3 tools/check.py "$prop" --tier "$tier" > /tmp/seedtest-$$.out 2>&1; rc=$?
  git -C /repo worktree remove --force $wt; rm -rf $out
fi
grep -E "VIOLATION|BROKEN|KNOWN" /tmp/seedtest-$$.out | head -5
echo "exit=$rc"
