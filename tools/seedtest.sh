#!/bin/bash
# usage: tools/seedtest.sh seeded/<dir> <Cxx> [tier]   — applies the seeded patch to /repo, runs the check, restores /repo
set -u
d=$1; prop=$2; tier=${3:-quick}
cd /repo && git diff --quiet || { echo "/repo not clean"; exit 3; }
git -C /repo apply "/verif/$d/patch.diff" || { echo "patch does not apply"; exit 3; }
cd /verif && python3 tools/check.py "$prop" --tier "$tier" > /tmp/seedtest.out 2>&1; rc=$?
git -C /repo checkout -- .
grep -E "VIOLATION|BROKEN|KNOWN" /tmp/seedtest.out | head -5
echo "exit=$rc"
