"""Small pure-Python edwards25519 / curve25519 toolkit for the generators (crafting structured and adversarial inputs).
It is NOT an oracle: expected values always come from the Lean model driver."""
import hashlib

p = 2 ** 255 - 19
L = 2 ** 252 + 27742317777372353535851937790883648493
d = (-121665 * pow(121666, p - 2, p)) % p
I = pow(2, (p - 1) // 4, p)


def inv(x):
    return pow(x, p - 2, p)


def add(P, Q):
    (x1, y1), (x2, y2) = P, Q
    t = d * x1 * x2 * y1 * y2 % p
    return ((x1 * y2 + x2 * y1) * inv(1 + t) % p, (y1 * y2 + x1 * x2) * inv(1 - t) % p)


def neg(P):
    return ((-P[0]) % p, P[1])


def _ext_add(P, Q):
    (X1, Y1, Z1, T1), (X2, Y2, Z2, T2) = P, Q
    A = (Y1 - X1) * (Y2 - X2) % p
    Bq = (Y1 + X1) * (Y2 + X2) % p
    C = T1 * 2 * d * T2 % p
    D = Z1 * 2 * Z2 % p
    E, F, G, H_ = Bq - A, D - C, D + C, Bq + A
    return (E * F % p, G * H_ % p, F * G % p, E * H_ % p)


def mul(k, P):
    """scalar multiplication in extended coordinates (one inversion at the end)"""
    Q = (0, 1, 1, 0)
    R = (P[0], P[1], 1, P[0] * P[1] % p)
    while k > 0:
        if k & 1:
            Q = _ext_add(Q, R)
        R = _ext_add(R, R)
        k >>= 1
    zi = inv(Q[2])
    return (Q[0] * zi % p, Q[1] * zi % p)


def xrecover(y, sign):
    xx = (y * y - 1) * inv(d * y * y + 1) % p
    x = pow(xx, (p + 3) // 8, p)
    if (x * x - xx) % p != 0:
        x = x * I % p
    if (x * x - xx) % p != 0:
        return None
    if x % 2 != sign:
        x = p - x
    return x % p


By = 4 * inv(5) % p
B = (xrecover(By, 0), By)


def enc(P):
    return (P[1] | ((P[0] & 1) << 255)).to_bytes(32, "little")


def dec(b):
    v = int.from_bytes(b, "little")
    y, s = v & ((1 << 255) - 1), v >> 255
    x = xrecover(y % p, s)
    return None if x is None else (x, y % p)


def torsion():
    """the 8 points of order dividing 8"""
    # a point of order 8: search small y
    y = 2
    while True:
        x = xrecover(y, 0)
        if x is not None:
            T = mul(L, (x, y))
            if mul(4, T) != (0, 1):
                break
        y += 1
    pts = [(0, 1)]
    Q = T
    for _ in range(7):
        pts.append(Q)
        Q = add(Q, T)
    return pts


TORSION = torsion()


def H(*parts):
    return hashlib.sha512(b"".join(parts)).digest()


def expand(seed):
    h = H(seed)
    a = int.from_bytes(h[:32], "little")
    a &= (1 << 254) - 8
    a |= 1 << 254
    return a, h[32:]


def pubkey(seed):
    a, _ = expand(seed)
    return enc(mul(a, B))


def sign(seed, m):
    a, prefix = expand(seed)
    A = enc(mul(a, B))
    r = int.from_bytes(H(prefix, m), "little") % L
    R = enc(mul(r, B))
    h = int.from_bytes(H(R, A, m), "little") % L
    S = (r + h * a) % L
    return R + S.to_bytes(32, "little")


def hram(R, A, m):
    return int.from_bytes(H(R, A, m), "little") % L


# X25519 low-order u-coordinates (RFC 7748 / libsodium blocklist) and interesting values
X_LOW = [0, 1, 325606250916557431795983626356110631294008115727848805560023387167927233504,
         39382357235489614581723060781553021112529911719440698176882885853963445705823, p - 1, p, p + 1]


def x25519(k, u):
    k = int.from_bytes(k, "little")
    k &= (1 << 254) - 8
    k |= 1 << 254
    x1 = (int.from_bytes(u, "little") & ((1 << 255) - 1)) % p
    x2, z2, x3, z3, swap = 1, 0, x1, 1, 0
    for t in reversed(range(255)):
        kt = (k >> t) & 1
        swap ^= kt
        if swap:
            x2, x3, z2, z3 = x3, x2, z3, z2
        swap = kt
        A = (x2 + z2) % p; AA = A * A % p; Bq = (x2 - z2) % p; BB = Bq * Bq % p; E = (AA - BB) % p
        C = (x3 + z3) % p; D = (x3 - z3) % p; DA = D * A % p; CB = C * Bq % p
        x3 = (DA + CB) ** 2 % p; z3 = x1 * (DA - CB) ** 2 % p; x2 = AA * BB % p; z2 = E * (AA + 121665 * E) % p
    if swap:
        x2, x3, z2, z3 = x3, x2, z3, z2
    return (x2 * inv(z2) % p).to_bytes(32, "little")


def mont_ladder(k, x1):
    """x-only scalar multiplication on Curve25519 / its twist with an UNCLAMPED integer scalar; returns (x2, z2) projective (z2 = 0: infinity)"""
    x1 %= p
    x2, z2, x3, z3, swap = 1, 0, x1, 1, 0
    for t in reversed(range(max(k.bit_length(), 1))):
        kt = (k >> t) & 1
        swap ^= kt
        if swap:
            x2, x3, z2, z3 = x3, x2, z3, z2
        swap = kt
        A = (x2 + z2) % p; AA = A * A % p; Bq = (x2 - z2) % p; BB = Bq * Bq % p; E = (AA - BB) % p
        C = (x3 + z3) % p; D = (x3 - z3) % p; DA = D * A % p; CB = C * Bq % p
        x3 = (DA + CB) ** 2 % p; z3 = x1 * (DA - CB) ** 2 % p; x2 = AA * BB % p; z2 = E * (AA + 121665 * E) % p
    if swap:
        x2, x3, z2, z3 = x3, x2, z3, z2
    return x2, z2


L_TWIST = (1 << 253) - 55484635554744707071703875581767296995      # prime order of the quadratic twist's large subgroup


def prime_subgroup_order(u):
    """the prime order (L on the curve, L_TWIST on the twist) if the point(s) with x-coordinate u lie in the prime-order subgroup, else None.
    Only such u can be the result of X25519 with a clamped scalar (the clamped scalar is a multiple of 8, the cofactors are 8 and 4)."""
    u %= p
    if u == 0:
        return None
    rhs = (u * u * u + 486662 * u * u + u) % p
    order = L if pow(rhs, (p - 1) // 2, p) == 1 else L_TWIST          # u^3 + A u^2 + u a square: on the curve, otherwise on the twist
    return order if mont_ladder(order, u)[1] == 0 else None


def preimage_for_output(n_bytes, u, order=None):
    """a point P (32 bytes) with X25519(n, P) = u, for u of prime order on the curve or on its twist; None if u has a torsion component
    (order: the result of prime_subgroup_order(u) if the caller already has it)"""
    k = int.from_bytes(n_bytes, "little"); k &= (1 << 254) - 8; k |= 1 << 254
    for o in ((L, L_TWIST) if order is None else (order,)):
        if order is not None or mont_ladder(o, u)[1] == 0:    # [order]u = infinity: u lies in that prime-order subgroup
            m = pow(k, -1, o)
            x2, z2 = mont_ladder(m, u)
            if z2 == 0:
                return None
            return (x2 * inv(z2) % p).to_bytes(32, "little")
    return None
