#!/usr/bin/env python3
"""Extract the `static const fe25519 NAME = { l0, l1, l2, l3, l4 };` tables of
   crypto_core/ed25519/ref10/fe_51/constants.h (radix 2^51) and print them as Lean definitions
   (`Sodium.Model.Fe51.Fe` literals) together with the integer each one denotes.
   usage: fe51_constants.py [/repo/src/libsodium]"""
import re, sys
root = sys.argv[1] if len(sys.argv) > 1 else "/repo/src/libsodium"
src = open(root + "/crypto_core/ed25519/ref10/fe_51/constants.h").read()
defs = dict(re.findall(r"#define\s+(\w+)\s+(\d+)", src))
P = 2**255 - 19
for name, body in re.findall(r"static const fe25519 (\w+) = \{([^}]*)\};", src):
    limbs = [int(defs.get(t.strip(), t.strip())) for t in body.split(",") if t.strip()]
    assert len(limbs) == 5 and all(0 <= l < 2**51 for l in limbs)
    v = sum(l << (51 * i) for i, l in enumerate(limbs))
    assert v < P
    print("/-- `%s` of fe_51/constants.h; value\n    %d -/" % (name, v))
    print("def %s : Fe := ⟨%s⟩" % (name, ", ".join(map(str, limbs))))
for k, v in defs.items():
    print("/-- `#define %s %s` -/\ndef %s : UInt32 := %s" % (k, v, k, v))
