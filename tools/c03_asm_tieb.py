#!/usr/bin/env python3
"""C03 Tie B for the xmm6 Salsa20 assembly: .S text -> Generated/SalsaXmm6Asm.lean -> Properties/C03Asm.lean.

tie_b(lean_dir, repo_src) -> (ok, message)
  1. translates the CURRENT text of `repo_src/crypto_stream/salsa20/xmm6/salsa20_xmm6-asm.S` (repo_src = …/src/libsodium)
     to a scratch string (asm2lean_salsa.emit); a line the translator does not know is a FAILURE (never skipped);
  2. identical to `lean_dir/Generated/SalsaXmm6Asm.lean`: the theorems (and the driver) built by this run are about the
     code as it is;
  3. different: the regenerated text is put in place, `SodiumModel.Properties.C03Asm` is rebuilt against it, and the
     committed file is restored (and its build products rebuilt) whatever happened.

cross_run(lean_dir, repo_src, ops) -> [model answers]: the same swap, but rebuilds the driver `sodium-model` against the
regenerated text and runs the given op lines through it (the `MODEL-DISAGREE` search for a concrete input).
"""
import os, subprocess, sys, time

HERE = os.path.dirname(os.path.abspath(__file__))
sys.path.insert(0, HERE)
import asm2lean_salsa as A  # noqa: E402

TARGETS = ["SodiumModel.Properties.C03Asm", "SodiumModel.Properties.C03Asm2", "SodiumModel.Properties.C03Asm3"]   # C03Asm2: theorem (a), the prologue
TARGET = " + ".join(TARGETS)
REL_S = os.path.join("crypto_stream", "salsa20", "xmm6", "salsa20_xmm6-asm.S")


def _src(repo_src):
    return repo_src if repo_src.endswith(".S") else os.path.join(repo_src, REL_S)


def _swap_and(lean_dir, new_text, action):
    gen = os.path.join(lean_dir, "Generated", "SalsaXmm6Asm.lean")
    old = open(gen).read() if os.path.exists(gen) else None
    try:
        with open(gen, "w") as fh:
            fh.write(new_text)
        return action()
    finally:
        if old is None:
            os.unlink(gen)
        else:
            with open(gen, "w") as fh:
                fh.write(old)


def tie_b(lean_dir, repo_src, timeout=1800):
    t0 = time.time()
    src = _src(repo_src)
    try:
        new = A.emit(open(src).read(), os.path.basename(src))
    except A.TranslateError as e:
        return False, "translator refused %s: %s" % (src, e)
    gen = os.path.join(lean_dir, "Generated", "SalsaXmm6Asm.lean")
    cur = open(gen).read() if os.path.exists(gen) else ""
    if new == cur:
        return True, "OK: Generated/SalsaXmm6Asm.lean is the translation of the current %s (unchanged); %s was built by this run against it; %.1fs" % (REL_S, TARGET, time.time() - t0)

    def build():
        return subprocess.run(["lake", "build"] + TARGETS, cwd=lean_dir, capture_output=True, text=True, timeout=timeout)
    p = _swap_and(lean_dir, new, build)
    subprocess.run(["lake", "build"] + TARGETS, cwd=lean_dir, capture_output=True, text=True, timeout=timeout)    # back to the committed state
    ndiff = sum(1 for a, b in zip(new.split("\n"), cur.split("\n")) if a != b) + abs(new.count("\n") - cur.count("\n"))
    if p.returncode == 0:
        return True, "OK: the .S text changed (%d generated lines differ) and %s re-checks against the regenerated text; %.1fs" % (ndiff, TARGET, time.time() - t0)
    return False, "FAILED: the .S text changed (%d generated lines differ) and %s does NOT re-check against the regenerated text:\n%s" % (
        ndiff, TARGET, (p.stdout + p.stderr)[-2500:])


def cross_run(lean_dir, repo_src, ops, timeout=1800):
    src = _src(repo_src)
    new = A.emit(open(src).read(), os.path.basename(src))

    def go():
        b = subprocess.run(["lake", "build", "sodium-model"], cwd=lean_dir, capture_output=True, text=True, timeout=timeout)
        if b.returncode != 0:
            raise RuntimeError("driver does not build against the regenerated text:\n" + (b.stdout + b.stderr)[-2000:])
        exe = os.path.join(lean_dir, ".lake", "build", "bin", "sodium-model")
        r = subprocess.run([exe], input="\n".join(ops) + "\n", capture_output=True, text=True, timeout=timeout)
        return r.stdout.split("\n")[:len(ops)]
    try:
        return _swap_and(lean_dir, new, go)
    finally:
        subprocess.run(["lake", "build", "sodium-model"], cwd=lean_dir, capture_output=True, text=True, timeout=timeout)


if __name__ == "__main__":
    lean_dir = sys.argv[1] if len(sys.argv) > 1 else os.path.dirname(HERE)
    repo_src = sys.argv[2] if len(sys.argv) > 2 else "/repo/src/libsodium"
    ok, msg = tie_b(lean_dir, repo_src)
    print(msg)
    if not ok:
        print("VIOLATION property=C03 tie=B replay=(python3 %s %s %s)" % (os.path.abspath(__file__), lean_dir, repo_src))
    sys.exit(0 if ok else 1)
