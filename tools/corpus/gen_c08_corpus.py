#!/usr/bin/env python3
"""Generates the C08 op-line corpus (uses the C harness only to obtain base hash strings)."""
import random, re, subprocess, sys, base64

HX = '/var/tmp/proofdev-c08/hx-c08'
rnd = random.Random(808)
L = []

def hx(lines):
    p = subprocess.run([HX], input="\n".join(lines) + "\n", capture_output=True, text=True)
    assert p.returncode == 0, p.stderr
    return p.stdout.split("\n")[:-1]

def h(b):
    return b.hex() if b else '-'

def rb(n):
    return bytes(rnd.randrange(256) for _ in range(n))

SALT = bytes(range(16))
SALT32 = bytes(range(100, 132))

# ---------------------------------------------------------------- A: raw, valid parameters
mems = [8192, 8193, 9215, 9216, 12288, 16384, 20000, 65536, 100000, 262144, 1048576]
outlens = [16, 17, 31, 32, 33, 63, 64, 65, 66, 127, 128, 129, 200, 1000]
pwlens = [0, 1, 5, 16, 63, 64, 65, 127, 128, 129, 300]
for alg in ('argon2i', 'argon2id', '1', '2'):
    for _ in range(40):
        mem = rnd.choice(mems); ops = rnd.randrange(1, 5)
        if mem > 300000 and ops > 2: ops = 1 + ops % 2 if alg in ('argon2id', '2') else 3
        L.append("pwhash.raw %s %d %s %s %d %d" % (alg, rnd.choice(outlens), h(rb(rnd.choice(pwlens))), h(rb(16)), ops, mem))
# every memlimit from 8192 to 8192+4096 step 512 (rounding to multiples of 4 blocks), both types
for mem in range(8192, 8192 + 8 * 1024 + 1, 512):
    L.append("pwhash.raw argon2id 32 %s %s 1 %d" % (h(b'password'), h(SALT), mem))
    L.append("pwhash.raw argon2i 32 %s %s 3 %d" % (h(b'password'), h(SALT), mem))

# ---------------------------------------------------------------- B: raw, limits
pw = h(b'pw')
for alg in ('argon2i', 'argon2id'):
    omin = 3 if alg == 'argon2i' else 1
    for outlen in (0, 1, 15, 16, 17):
        L.append("pwhash.raw %s %d %s %s %d 8192" % (alg, outlen, pw, h(SALT), omin))
    L.append("pwhash.raw %s %d %s %s %d 8192" % (alg, 1 << 20, pw, h(SALT), omin))
    for ops in (0, 1, 2, 3, 4, 4294967296, 4294967297, 1 << 40, (1 << 64) - 1):
        for mem in (8191, 8192):
            if ops <= 4 or ops > 4294967295:
                L.append("pwhash.raw %s 16 %s %s %d %d" % (alg, pw, h(SALT), ops, mem))
    for mem in (0, 1, 1023, 1024, 8190, 8191, 8192, 8193, 4398046510081, 4398046510082, 1 << 50, (1 << 64) - 1):
        L.append("pwhash.raw %s 16 %s %s %d %d" % (alg, pw, h(SALT), omin, mem))
    # precedence of the checks
    for outlen in (15, 16):
        for ops in (0, omin - 1, omin, 4294967296):
            for mem in (100, 8192, 4398046510081):
                if (outlen, ops, mem) != (16, omin, 8192):
                    L.append("pwhash.raw %s %d %s %s %d %d" % (alg, outlen, pw, h(SALT), ops, mem))
    L.append("pwhash.raw %s 16 - %s %d 8192" % (alg, h(SALT), omin))
for alg in ('0', '3', '-1', '4', '100', '2147483647', '-2147483648'):
    L.append("pwhash.raw %s 32 %s %s 3 8192" % (alg, pw, h(SALT)))
    L.append("pwhash.raw %s 15 %s %s 0 1" % (alg, pw, h(SALT)))
L.append("pwhash.raw 1 32 %s %s 2 8192" % (pw, h(SALT)))     # argon2i needs opslimit >= 3
L.append("pwhash.raw 2 32 %s %s 2 8192" % (pw, h(SALT)))

# ---------------------------------------------------------------- C: str
for alg in ('argon2i', 'argon2id', 'default', '1', '2'):
    omin = 3 if alg in ('argon2i', '1') else 1
    for (ops, mem) in ((omin, 8192), (omin + 1, 8192), (4, 16384), (omin, 1048576), (omin, 8193), (omin, 123456), (omin, 10240000 if False else 102400)):
        for salt in (SALT, bytes(16), b'\xff' * 16, rb(16), rb(5), b'', rb(20)):
            if mem > 200000 and salt != SALT: continue
            L.append("pwhash.str %s %s %d %d %s" % (alg, h(rb(rnd.choice(pwlens))), ops, mem, h(salt)))
    for (ops, mem) in ((0, 8192), (omin - 1, 8192), (omin, 8191), (omin, 0), (4294967296, 8192), (omin, 4398046510081),
                       (0, 4398046510081), (4294967296, 0), ((1 << 64) - 1, (1 << 64) - 1), (0, 0)):
        L.append("pwhash.str %s %s %d %d %s" % (alg, pw, ops, mem, h(SALT)))

# ---------------------------------------------------------------- D: verify / needs_rehash on produced and mutated strings
PW = b'correct horse'
base_specs = [('argon2id', 1, 8192, SALT), ('argon2i', 3, 8192, bytes(range(200, 216))), ('argon2id', 2, 65536, rb(16)),
              ('argon2i', 4, 1048576, rb(16)), ('default', 3, 10240, b'\xff' * 16)]
outs = hx(["pwhash.str %s %s %d %d %s" % (a, h(PW), o, m, h(s)) for (a, o, m, s) in base_specs])
bases = []
for (a, o, m, s), line in zip(base_specs, outs):
    assert line.startswith("0 "), line
    bases.append((bytes.fromhex(line[2:]), o, m))

def a2_cost(st):
    """(m*t) of a string if it could be computed, else 0"""
    mm = re.search(rb"\$m=(\d+),t=(\d+),p=(\d+)\$", st.split(b'\0')[0])
    if not mm: return 0
    try:
        m, t, p = int(mm.group(1)), int(mm.group(2)), int(mm.group(3))
    except ValueError:
        return 0
    if m >= 1 << 32 or t >= 1 << 32 or p >= 1 << 32: return 0
    if p > 0xFFFFFF or m < 8 * p: return 0
    return m * t

def add_str(st, ops, mem, pws=(PW,), maxcost=3000):
    if a2_cost(st) <= maxcost:
        for p in pws:
            L.append("pwhash.verify %s %s" % (h(st), h(p)))
    L.append("pwhash.needs_rehash %s %d %d" % (h(st), ops, mem))

SUBS = b"0129$=,Az/+x\x80 "
INS = b"01$=A,"
for bi, (st, ops, mem) in enumerate(bases):
    full = bi < 2          # exhaustive mutation for the two cheapest strings
    add_str(st, ops, mem, (PW, b'', PW + b'x', PW[:-1], b'Correct horse', rb(12)), maxcost=1 << 21)
    # needs_rehash equal / different
    for (o2, m2) in ((ops, mem), (ops, mem + 1), (ops, mem + 1023), (ops, mem + 1024), (ops, mem - 1), (ops + 1, mem), (ops - 1, mem),
                     (0, 0), (ops + (1 << 32), mem), (ops, mem + (1 << 42)), (4294967295, mem), (4294967296, mem),
                     (ops, 4398046510080), (ops, 4398046511103), (ops, 4398046511104), ((1 << 64) - 1, (1 << 64) - 1)):
        L.append("pwhash.needs_rehash %s %d %d" % (h(st), o2, m2))
    n = len(st)
    for i in range(n):                       # deletions
        add_str(st[:i] + st[i + 1:], ops, mem)
    for i in range(n + 1):                   # truncations
        add_str(st[:i], ops, mem)
    for i in range(n):                       # substitutions
        cs = SUBS if full else bytes(rnd.sample(list(SUBS), 3))
        for c in cs:
            if st[i] != c:
                add_str(st[:i] + bytes([c]) + st[i + 1:], ops, mem)
        if full:                             # neighbouring character (one-bit style change)
            add_str(st[:i] + bytes([st[i] ^ 1]) + st[i + 1:], ops, mem)
    for i in range(n + 1):                   # insertions
        cs = INS if full else bytes(rnd.sample(list(INS), 2))
        for c in cs:
            add_str(st[:i] + bytes([c]) + st[i:], ops, mem)
    for g in (b'$', b'A', b'=', b'==', b' ', b'\n', b'$x', b'\x00', b'\x00junk', b'AAAA', b'\xff'):   # garbage appended
        add_str(st + g, ops, mem)
    # targeted edits
    def rep(a, b):
        assert a in st
        add_str(st.replace(a, b, 1), ops, mem)
    rep(b'p=1', b'p=2'); rep(b'p=1', b'p=0'); rep(b'p=1', b'p=01'); rep(b'p=1', b'p=16777215'); rep(b'p=1', b'p=16777216')
    rep(b'p=1', b'p=4294967295'); rep(b'p=1', b'p=4294967296'); rep(b'p=1', b'p=')
    rep(b'v=19', b'v=16'); rep(b'v=19', b'v=18'); rep(b'v=19', b'v=20'); rep(b'v=19', b'v=019'); rep(b'v=19', b'v=0x13')
    rep(b'$v=19', b''); rep(b'v=19$', b''); rep(b'v=19', b'v=4294967315'); rep(b'v=19', b'v=18446744073709551635')
    rep(b'$m=', b'$m=0'); rep(b'$m=', b'$m=00'); rep(b',t=', b',t=0'); rep(b',t=', b',t=+'); rep(b',t=', b',t=-'); rep(b',t=', b',t= ')
    rep(b'$m=', b'$M='); rep(b'$m=', b'$t='); rep(b',t=', b',m='); rep(b',t=', b'$t='); rep(b',p=', b'$p=')
    rep(b'$argon2id$' if st.startswith(b'$argon2id$') else b'$argon2i$', b'$argon2d$')
    rep(b'$argon2i', b'$Argon2i'); rep(b'$argon2i', b'argon2i'); rep(b'$argon2i', b'$$argon2i'); rep(b'$argon2i', b' $argon2i')
    rep(b'$argon2i', b'$argon2'); rep(b'$argon2i', b'$argon2ii'); rep(b'$argon2i', b'$7$'); rep(b'$argon2i', b'$argon2i\x00')
    if st.startswith(b'$argon2id$'): add_str(b'$argon2i$' + st[10:], ops, mem)
    else: add_str(b'$argon2id$' + st[9:], ops, mem)
    mm = re.search(rb"\$m=(\d+),t=(\d+),", st)
    mval, tval = mm.group(1), mm.group(2)
    for new in (b'0', b'7', b'8', b'9', b'08', b'4294967295', b'4294967296', b'18446744073709551615', b'18446744073709551616',
                b'18446744073709551624', b'99999999999999999999', b'', b'8a', b'0x8'):
        add_str(st.replace(b'$m=' + mval + b',', b'$m=' + new + b',', 1), ops, mem)
    for new in (b'0', b'01', b'2', b'4294967296', b'18446744073709551617', b''):
        add_str(st.replace(b',t=' + tval + b',', b',t=' + new + b',', 1), ops, mem)
    # t enormous but valid: only needs_rehash (verify would run 2^32 passes)
    L.append("pwhash.needs_rehash %s %d %d" % (h(st.replace(b',t=' + tval + b',', b',t=4294967295,', 1)), 4294967295, mem))
    L.append("pwhash.needs_rehash %s %d %d" % (h(st.replace(b'$m=' + mval + b',', b'$m=4294967295,', 1)), ops, 4294967295 * 1024))
    L.append("pwhash.needs_rehash %s %d %d" % (h(st.replace(b'$m=' + mval + b',', b'$m=4294967295,', 1)), ops, 4294967295 * 1024 + 1023))
    # '=' padding / urlsafe alphabet / whitespace inside the base64 fields
    parts = st.split(b'$')
    salt_b64, hash_b64 = parts[4], parts[5]
    head = b'$'.join(parts[:4])
    for s2, h2 in ((salt_b64 + b'==', hash_b64), (salt_b64, hash_b64 + b'='), (salt_b64 + b'=', hash_b64 + b'='),
                   (salt_b64.replace(b'/', b'_').replace(b'+', b'-'), hash_b64.replace(b'/', b'_').replace(b'+', b'-')),
                   (salt_b64[:5] + b' ' + salt_b64[5:], hash_b64), (salt_b64, hash_b64[:7] + b'\n' + hash_b64[7:]),
                   (salt_b64, b''), (b'', hash_b64), (b'', b''), (hash_b64, salt_b64), (salt_b64[:-1] + b'B', hash_b64),
                   (salt_b64, hash_b64[:-1] + b'B'), (salt_b64[:-1], hash_b64), (salt_b64, hash_b64[:-1]), (salt_b64, hash_b64[:-2]),
                   (salt_b64, hash_b64[:-3]), (salt_b64[:-2], hash_b64), (salt_b64[:-3], hash_b64), (salt_b64 + b'A', hash_b64),
                   (salt_b64 + b'AA', hash_b64), (salt_b64, hash_b64 + b'A'), (salt_b64, hash_b64 + b'AA'), (salt_b64, hash_b64 + b'AAA')):
        add_str(head + b'$' + s2 + b'$' + h2, ops, mem)
    add_str(head + b'$' + salt_b64, ops, mem); add_str(head + b'$' + salt_b64 + b'$' + hash_b64 + b'$' + hash_b64, ops, mem)

# strings with other salt / tag lengths, correct tags obtained from the raw API (p = 1, salt 16 bytes)
def b64(b): return base64.b64encode(b).rstrip(b'=')
for (alg, ops, mem, outlen) in (('argon2id', 1, 8192, 16), ('argon2id', 2, 9216, 64), ('argon2i', 3, 8192, 17), ('argon2i', 3, 16384, 33),
                                ('argon2id', 1, 8192, 31), ('argon2id', 1, 8192, 75)):
    salt = rb(16)
    o = hx(["pwhash.raw %s %d %s %s %d %d" % (alg, outlen, h(PW), h(salt), ops, mem)])[0]
    tag = bytes.fromhex(o[2:])
    st = b'$%s$v=19$m=%d,t=%d,p=1$%s$%s' % (alg.encode(), mem // 1024, ops, b64(salt), b64(tag))
    add_str(st, ops, mem, (PW, b'wrong'))
    add_str(st[:-1] + (b'A' if st[-1:] != b'A' else b'B'), ops, mem)
# salt / tag length limits (validate_inputs: salt >= 8, tag >= 16) and the 127/128 string-length limit of needs_rehash
for sl in (0, 1, 7, 8, 9, 15, 16, 17, 24, 33, 34, 35, 36, 40):
    for ol in (0, 1, 15, 16, 17, 32, 33):
        st = b'$argon2id$v=19$m=8,t=1,p=1$' + b64(rb(sl)) + b'$' + b64(rb(ol))
        add_str(st, 1, 8192)
        add_str(st.replace(b'argon2id', b'argon2i'), 1, 8192)
for total in range(120, 135):
    fixed = b'$argon2id$v=19$m=4294967295,t=4294967295,p=16777215$'
    tagb = b64(rb(32))
    k = total - len(fixed) - 1 - len(tagb)
    for sl in range(8, 80):
        if len(b64(bytes(sl))) == k:
            st = fixed + b64(rb(sl)) + b'$' + tagb
            assert len(st) == total
            L.append("pwhash.needs_rehash %s %d %d" % (h(st), 4294967295, 4294967295 * 1024))
            L.append("pwhash.needs_rehash %s %d %d" % (h(st), 1, 8192))
            st2 = st.replace(b'16777215', b'16777216')
            L.append("pwhash.needs_rehash %s %d %d" % (h(st2), 4294967295, 4294967295 * 1024))
for st in (b'', b'$', b'$argon2id$', b'$argon2i$', b'$argon2id', b'$argon2i', b'$argon2id$v=19$m=8,t=1,p=1$$', b'\x00', b'\x00$argon2id$',
           b'$argon2id$v=19$m=8,t=1,p=1$AAAAAAAAAAA$AAAAAAAAAAAAAAAAAAAAAA', b'$argon2id$v=19$m=8,t=1,p=1$AAAAAAAAAAA$AAAAAAAAAAAAAAAAAAAAAB',
           b'$argon2id$v=19$m=16,t=1,p=2$AAAAAAAAAAA$AAAAAAAAAAAAAAAAAAAAAA', b'$argon2id$v=19$m=15,t=1,p=2$AAAAAAAAAAA$AAAAAAAAAAAAAAAAAAAAAA',
           b'$argon2i$v=19$m=32,t=2,p=4$AAAAAAAAAAA$AAAAAAAAAAAAAAAAAAAAAA', b'$argon2id$v=19$m=33,t=1,p=3$AAAAAAAAAAA$AAAAAAAAAAAAAAAAAAAAAA',
           b'$argon2id$v=19$m=8,t=1,p=1$AAAAAAAAAAA$AAAAAAAAAAAAAAAAAAAAAA$', b'$argon2id$v=19$m=8,t=1,p=1$AAAAAAAAAAA$AAAAAAAAAAAAAAAAAAAAAA\x00$'):
    add_str(st, 1, 8192, (b'', PW))
    add_str(st, 2, 16384)

# ---------------------------------------------------------------- F: scrypt
def pick(ops, mem):
    if ops < 32768: ops = 32768
    r = 8
    def nlog(maxN):
        k = 1
        while k < 63:
            if (1 << k) > maxN // 2: break
            k += 1
        return k
    if ops < mem // 32:
        p = 1; n = nlog(ops // 32)
    else:
        n = nlog(mem // 1024)
        maxrp = (ops // 4) // (1 << n)
        if maxrp > 0x3fffffff: maxrp = 0x3fffffff
        p = (maxrp & 0xffffffff) // r
    return n, r, p

def sc_ok(ops, mem):
    n, r, p = pick(ops, mem)
    if (1 << n) > 0xffffffff or r * p >= 1 << 30: return True     # fails fast
    if p == 0: return True
    return (1 << n) <= 4096 and (1 << n) * r * p <= 1 << 17 and p <= 128

sc_params = []
for ops in (0, 1, 32767, 32768, 32769, 40000, 65535, 65536, 100000, 131072, 262144, 524288):
    for mem in (0, 1, 1023, 1024, 2047, 2048, 4096, 8192, 16384, 100000, 1048575, 1048576, 1048577, 2097152, 4194304, 4194305, 5000000,
                8388608, 16777216, 33554432, 1 << 30, 1 << 40, (1 << 64) - 1):
        if sc_ok(ops, mem): sc_params.append((ops, mem))
for (ops, mem) in sc_params:
    L.append("scrypt.raw %d %s %s %d %d" % (rnd.choice((16, 17, 32, 33, 64, 65, 100)), h(rb(rnd.choice(pwlens))), h(rb(32)), ops, mem))
for (ops, mem) in (((1 << 63), (1 << 64) - 1), ((1 << 64) - 1, (1 << 64) - 1), (1 << 62, 1 << 63), (1 << 45, 1 << 50), (1 << 40, 1 << 42)):
    n, r, p = pick(ops, mem)
    if (1 << n) > 0xffffffff or r * p >= 1 << 30:
        L.append("scrypt.raw 32 %s %s %d %d" % (pw, h(SALT32), ops, mem))
        L.append("scrypt.str %s %d %d %s" % (pw, ops, mem, h(SALT32)))
for outlen in (0, 1, 15, 16, 17, 1000):
    L.append("scrypt.raw %d %s %s 32768 16384" % (outlen, pw, h(SALT32)))
L.append("scrypt.raw 15 %s %s %d %d" % (pw, h(SALT32), 1 << 63, (1 << 64) - 1))
L.append("scrypt.raw 32 - %s 32768 16384" % h(SALT32))
# ll
for _ in range(120):
    N = 1 << rnd.randrange(1, 9); r = rnd.randrange(1, 9); p = rnd.randrange(1, 4)
    L.append("scrypt.ll %s %s %d %d %d %d" % (h(rb(rnd.choice((0, 1, 8, 64, 65, 100)))), h(rb(rnd.choice((0, 1, 16, 32, 63, 64, 65, 129)))), N, r, p,
                                             rnd.choice((0, 1, 16, 31, 32, 33, 64, 65, 100))))
for (N, r, p) in ((0, 1, 1), (1, 1, 1), (2, 1, 1), (3, 1, 1), (5, 8, 1), (6, 8, 1), (12, 1, 1), (1023, 1, 1), (1025, 1, 1), (1 << 32, 1, 1), ((1 << 32) + 1, 1, 1),
                  (1 << 33, 8, 1), ((1 << 64) - 1, 1, 1), (1 << 63, 1, 1), (16, 0, 1), (16, 1, 0), (16, 0, 0), (3, 0, 0), (0, 0, 0),
                  (16, 1 << 15, 1 << 15), (3, 1 << 30, 1), (16, 1 << 30, 1), (16, 1, 1 << 30), (16, (1 << 32) - 1, (1 << 32) - 1),
                  (16, (1 << 32) + 1, 1), (16, 1, (1 << 32) + 2), (16, 1 << 32, 1), (16, 1, 1 << 32), (1 << 32, 0, 0), (3, 1 << 16, 1 << 14), (1 << 40, 1 << 16, 1 << 14),
                  (4, 16, 2), (1024, 8, 1), (4096, 8, 1), (2, 64, 1)):
    L.append("scrypt.ll %s %s %d %d %d 32" % (pw, h(b'salt'), N, r, p))
# RFC 7914 vectors through ll
L.append("scrypt.ll - - 16 1 1 64")
L.append("scrypt.ll %s %s 1024 8 16 64" % (h(b'password'), h(b'NaCl')))
# str
for (ops, mem) in sc_params:
    L.append("scrypt.str %s %d %d %s" % (h(rb(rnd.choice(pwlens))), ops, mem, h(rnd.choice((SALT32, bytes(32), b'\xff' * 32, rb(32), rb(7), b'', rb(40))))))

ITOA = b"./0123456789ABCDEFGHIJKLMNOPQRSTUVWXYZabcdefghijklmnopqrstuvwxyz"
def sc_cost_ok(st):
    """True if verifying this (exactly 101 characters, no NUL) string is cheap or fails before the KDF"""
    b = st[:102]
    if len(b) != 101 or 0 in b: return True
    if b[:3] != b'$7$': return True
    vals = []
    for c in b[3:14]:
        i = ITOA.find(bytes([c]))
        if i < 0: return True
        vals.append(i)
    n = vals[0]; r = sum(v << (6 * i) for i, v in enumerate(vals[1:6])); p = sum(v << (6 * i) for i, v in enumerate(vals[6:11]))
    r &= 0xffffffff; p &= 0xffffffff
    rest = b[14:]
    j = rest.rfind(b'$')
    saltlen = j if j >= 0 else len(rest)
    if 14 + saltlen + 45 > 102: return True
    N = 1 << n
    if r * p >= 1 << 30 or N > 0xffffffff or N < 2 or r == 0 or p == 0: return True
    return N * r * p <= 1 << 17 and 128 * r * (N + p) <= 1 << 25 and p <= 200

def add_sc(st, ops, mem, pws=(PW,)):
    if sc_cost_ok(st):
        for p in pws:
            L.append("scrypt.verify %s %s" % (h(st), h(p)))
    L.append("scrypt.needs_rehash %s %d %d" % (h(st), ops, mem))

sc_specs = [(32768, 1048576, SALT32), (32768, 16777216, rb(32)), (32768, 16384, b'\xff' * 32), (32768, 8192, bytes(32))]
outs = hx(["scrypt.str %s %d %d %s" % (h(PW), o, m, h(s)) for (o, m, s) in sc_specs])
SC_SUBS = b"./0$5z=A!\x80"
for bi, ((ops, mem, _), line) in enumerate(zip(sc_specs, outs)):
    assert line.startswith("0 "), line
    st = bytes.fromhex(line[2:]); assert len(st) == 101
    full = bi < 2
    add_sc(st, ops, mem, (PW, b'', PW + b'x', PW[:-1], rb(9)))
    for (o2, m2) in sc_params[::3] + [(ops, mem), (ops + 1, mem), (ops, mem + 1), (ops * 2, mem), (ops, mem * 2), (ops, mem // 2), (1 << 63, (1 << 64) - 1)]:
        L.append("scrypt.needs_rehash %s %d %d" % (h(st), o2, m2))
    n = len(st)
    for i in range(n):
        add_sc(st[:i] + st[i + 1:], ops, mem)                         # deletion
        add_sc(st[:i], ops, mem)                                       # truncation
        for c in (SC_SUBS if full else bytes(rnd.sample(list(SC_SUBS), 3))):
            if st[i] != c: add_sc(st[:i] + bytes([c]) + st[i + 1:], ops, mem)     # substitution
        if full: add_sc(st[:i] + bytes([st[i] ^ 1]) + st[i + 1:], ops, mem)
        for c in b"$.A":
            add_sc(st[:i] + bytes([c]) + st[i:], ops, mem)            # insertion
    for i in range(0, n, 3 if full else 9):                              # delete one character and insert one elsewhere: length stays 101
        for j in range(1, n, 7 if full else 13):
            if i != j:
                t = st[:i] + st[i + 1:]
                add_sc(t[:j] + b'$' + t[j:], ops, mem)
                add_sc(t[:j] + b'.' + t[j:], ops, mem)
    for g in (b'$', b'A', b'\x00', b'\x00x', b'AAAA'):
        add_sc(st + g, ops, mem)
    add_sc(st + b'\x00' * 5 + b'zzz', ops, mem); add_sc(b'$7$' + st, ops, mem); add_sc(st[:57] + st[58:] + b'$', ops, mem)
for st in (b'', b'$7$', b'$7', b'$', b'\x00', b'$7$' + b'.' * 98, b'$7$' + b'.' * 97, b'$7$' + b'.' * 99, b'$8$' + b'.' * 98, b'$7$' + b'$' * 98,
           b'$7$/' + b'.' * 97, b'$7$/./.../....' + b'.' * 87, b'$7$//..../....' + b'A' * 43 + b'$' + b'B' * 43, b'$7$.6....1....' + b'A' * 43 + b'$' + b'B' * 43,
           b'$7$06..../....' + b'A' * 43 + b'$' + b'B' * 43, b'$7$06...../...' + b'A' * 43 + b'$' + b'B' * 43, b'$7$z6..../....' + b'A' * 43 + b'$' + b'B' * 43,
           b'$7$U6..../....' + b'A' * 43 + b'$' + b'B' * 43, b'$7$T6..../....' + b'A' * 43 + b'$' + b'B' * 43 if False else b'$7$V6..../....' + b'A' * 43 + b'$' + b'B' * 43,
           b'$7$/zzzzzzzzzz' + b'A' * 43 + b'$' + b'B' * 43, b'$7$/....z/....' + b'A' * 43 + b'$' + b'B' * 43, b'$7$/.....zzzzz' + b'A' * 43 + b'$' + b'B' * 43,
           b'$7$/6..../....' + b'$' * 43 + b'$' + b'B' * 43, b'$7$/6..../....' + b'A' * 20 + b'$' + b'B' * 66):
    add_sc(st, 32768, 16384, (b'', PW))

open('/var/tmp/proofdev-c08/ops_c08_corpus.txt', 'w').write("\n".join(L) + "\n")
print(len(L), "lines")
