#!/usr/bin/env python3
"""C20 Tie B: C source -> Generated/AllocProgs.lean -> `goodAll Generated.<entry> = true` (Properties/C20Gen.lean).

tie_b(lean_dir, repo_src) -> (ok, message, offending)
  1. runs the translator (c2lean_alloc.py) on the CURRENT sources under `repo_src` (…/src/libsodium) into a scratch text;
  2. identical to the committed `lean_dir/Generated/AllocProgs.lean`: builds `SodiumModel.Properties.C20Gen` (incremental:
     the theorems that were built are about the code as it is);
     different: installs the regenerated text, builds the same target against it, and RESTORES the committed file afterwards;
  3. on failure evaluates the model (`badPaths`) on the regenerated programs and reports, per entry point, the failing
     fault schedule: which request numbers fail, the values of the named inputs on that path, the return value, the event
     trace and what is wrong (success reported / block never released / bad release).  That schedule is the replay:
     `fault.run`-style injection of exactly these failures reproduces it on the real library.
"""
import os, re, shutil, subprocess, sys, time

HERE = os.path.dirname(os.path.abspath(__file__))
sys.path.insert(0, HERE)
import c2lean_alloc as G  # noqa: E402

TARGET = "SodiumModel.Properties.C20Gen"

DIAG = r'''
import Generated.AllocProgs
open Sodium.Model.Fault Sodium.Model.AllocLang Generated.AllocProgs
def kindStr : RetKind → String | .api => "api" | .code => "code" | .ptr => "ptr"
def main : IO Unit := do
  for e in entries do
    let bad := badPaths e.kind e.prog
    IO.println s!"ENTRY {e.name} kind={kindStr e.kind} good={goodAll e.kind e.prog} paths={(allRuns e.prog).length} bad={bad.length} crashok={crashOnlyBeforeRequests e.prog}"
    for b in bad.take 4 do
      IO.println s!"  BAD oracle={b.1.map fun x => if x then "1" else "0"}"
      IO.println s!"  INPUTS {b.2.1.map fun x => (if x.2 then "+" else "-") ++ inputNames.getD x.1 "?"}"
      IO.println s!"  RC {b.2.2.1}"
      IO.println s!"  EVENTS {b.2.2.2.1.map evStr}"
      IO.println s!"  LIVE {b.2.2.2.2.1} BADREL {b.2.2.2.2.2}"
#eval main
'''


def explain(kind, oracle, rc, events, live, badrel):
    fails = [e for e in events if e.endswith(":FAILS")]
    parts = []
    if fails:
        parts.append(", ".join("request #%s (%s) fails" % (f.split("#")[1].split(":")[0], f.split("#")[0]) for f in fails))
    else:
        parts.append("no request fails")
    what = []
    if fails and ((kind == "api" and rc != -1) or (kind == "code" and rc in (0, -99)) or (kind == "ptr" and rc != 0)):
        what.append("the call returns %d%s" % (rc, " (success / match)" if rc == 0 and kind != "ptr" else (" (abort)" if rc == -99 else "")))
    exp_live = [rc - 1] if (kind == "ptr" and rc > 0) else []
    for b in live:
        if b not in exp_live:
            what.append("block #%d never released" % b)
    if badrel:
        what.append("a block is released twice / without having been obtained")
    return "; ".join(parts) + " → " + ("; ".join(what) or "the run violates the property")


def diagnose(lean_dir, outdir):
    q = subprocess.run(["lake", "build", "Generated.AllocProgs"], cwd=lean_dir, capture_output=True, text=True)
    if q.returncode != 0:
        return None, "Generated/AllocProgs.lean does not compile:\n" + (q.stdout + q.stderr)[-3000:]
    diag = os.path.join(outdir, "c20_diag.lean")
    open(diag, "w").write(DIAG)
    d = subprocess.run(["lake", "env", "lean", diag], cwd=lean_dir, capture_output=True, text=True)
    offending, cur, path = [], None, None
    for ln in d.stdout.split("\n"):
        m = re.match(r"^ENTRY (\S+) kind=(\S+) good=(\S+) paths=(\d+) bad=(\d+) crashok=(\S+)", ln)
        if m:
            cur = {"entry": m.group(1), "kind": m.group(2), "good": m.group(3) == "true", "bad_paths": int(m.group(5)),
                   "crash_only_before_requests": m.group(6) == "true", "schedules": []}
            if not cur["good"] or not cur["crash_only_before_requests"]:
                offending.append(cur)
            continue
        if cur is None:
            continue
        if ln.startswith("  BAD oracle="):
            path = {"oracle": re.findall(r"[01]", ln.split("=", 1)[1])}
            cur["schedules"].append(path)
        elif ln.startswith("  INPUTS ") and path is not None:
            path["inputs"] = [x.strip() for x in ln[len("  INPUTS ["):-1].split(", ") if x.strip()]
        elif ln.startswith("  RC ") and path is not None:
            path["rc"] = int(ln[5:])
        elif ln.startswith("  EVENTS ") and path is not None:
            path["events"] = [x.strip() for x in ln[len("  EVENTS ["):-1].split(", ") if x.strip()]
        elif ln.startswith("  LIVE ") and path is not None:
            m = re.match(r"  LIVE \[(.*)\] BADREL (\S+)", ln)
            path["live"] = [int(x) for x in m.group(1).split(",") if x.strip()]
            path["bad_release"] = m.group(2) == "true"
            path["replay"] = explain(cur["kind"], path["oracle"], path["rc"], path["events"], path["live"], path["bad_release"])
    if d.returncode != 0 and not offending:
        return None, "diagnostic evaluation failed:\n" + (d.stdout + d.stderr)[-3000:]
    return offending, None


def tie_b(lean_dir, repo_src=None, outdir=None):
    t0 = time.time()
    outdir = outdir or os.path.join(lean_dir, "out", "tieb_c20")
    os.makedirs(outdir, exist_ok=True)
    try:
        text, info = G.generate(repo_src, os.path.join(outdir, "ast"))
    except G.Refuse as e:
        return False, "translator REFUSED the current source: %s" % e, [{"entry": "(translator)", "why": str(e)}]
    gen = os.path.join(lean_dir, "Generated", "AllocProgs.lean")
    committed = open(gen).read() if os.path.exists(gen) else None
    differs = committed != text
    scratch = os.path.join(outdir, "AllocProgs.regenerated.lean")
    open(scratch, "w").write(text)
    try:
        if differs:
            open(gen, "w").write(text)
        p = subprocess.run(["lake", "build", TARGET], cwd=lean_dir, capture_output=True, text=True)
        if p.returncode == 0:
            msg = "%d entry points, %d named inputs; regenerated text %s the committed Generated/AllocProgs.lean; lake build %s ok; %.1fs" % (
                len(info["progs"]), len(info["inputs"]), "DIFFERS from (theorems re-proved against the new text)" if differs else "is identical to",
                TARGET, time.time() - t0)
            return True, msg, []
        # which theorems
        failed = []
        src = open(os.path.join(lean_dir, "SodiumModel", "Properties", "C20Gen.lean")).read().split("\n")
        for m in re.finditer(r"C20Gen\.lean:(\d+):\d+", p.stdout + p.stderr):
            ln = int(m.group(1))
            for i in range(min(ln, len(src)) - 1, -1, -1):
                mm = re.match(r"^(?:private )?(theorem|example)\s*(\S*)", src[i])
                if mm:
                    failed.append(mm.group(2) or "example@%d" % (i + 1))
                    break
        failed = sorted(set(failed))
        offending, err = diagnose(lean_dir, outdir)
        msg = "lake build %s FAILED against the regenerated skeletons (theorems: %s)\n" % (TARGET, ", ".join(failed) or "?")
        if err:
            return False, msg + err, []
        for o in offending:
            msg += "  entry point %s: goodAll = %s (%d bad paths)\n" % (o["entry"], str(o["good"]).lower(), o["bad_paths"])
            for sch in o["schedules"]:
                msg += "      replay: %s\n" % sch["replay"]
                msg += "              oracle prefix %s, rc %d, events %s\n" % ("".join(sch["oracle"]) or "-", sch["rc"], " ".join(sch["events"]) or "-")
                msg += "              inputs: %s\n" % (", ".join(x for x in sch["inputs"] if x.startswith("+")) or "(all false)")
        if not offending:
            msg += "  every entry point still satisfies goodAll: the failing theorems are the equivalences with the hand-written model\n"
            msg += (p.stdout + p.stderr)[-2500:]
        return False, msg, offending
    finally:
        if differs and committed is not None:
            open(gen, "w").write(committed)
        elif differs and committed is None:
            os.unlink(gen)


if __name__ == "__main__":
    import argparse
    ap = argparse.ArgumentParser()
    ap.add_argument("--lean", default=os.path.join(HERE, ".."))
    ap.add_argument("--src", default=None)
    a = ap.parse_args()
    ok, msg, off = tie_b(os.path.abspath(a.lean), a.src)
    print(("OK: " if ok else "FAIL: ") + msg)
    sys.exit(0 if ok else 1)
