#!/bin/bash
# usage: tools/seedconfirm.sh <worktree> <seeded-dir> — confirm a seeded change: applies cleanly on HEAD, compiles,
# 82 tests pass with it, demo fails with it and passes on the unchanged library; then removes the worktree.
wt=$1; d=/verif/$2; out=$d/confirm.txt
{
echo "== confirm $(date -u +%FT%TZ) worktree=$wt"
cd $wt || exit 1
git -C $wt diff --stat -- src | tail -1
echo "-- patch applies on a clean checkout:"; (git -C /repo apply --check $d/patch.diff && echo yes) 2>&1
echo "-- test suite with the change:"; make -j16 check 2>&1 | grep -E "^# (TOTAL|PASS|FAIL|ERROR)"
echo "-- demo against the changed library:"; gcc -w -I$wt/src/libsodium/include $d/demo.c $wt/src/libsodium/.libs/libsodium.a -lpthread -o /tmp/demo-changed-$$ && (/tmp/demo-changed-$$ | tail -2; echo "exit=${PIPESTATUS[0]}")
echo "-- demo against the unchanged library (source build of /repo HEAD):"; gcc -w -I/repo/src/libsodium/include $d/demo.c /var/tmp/vb-native/libsodium.a -lpthread -o /tmp/demo-clean-$$ && (/tmp/demo-clean-$$ | tail -2; echo "exit=${PIPESTATUS[0]}")
} > $out 2>&1
git -C /repo worktree remove --force $wt
cat $out
