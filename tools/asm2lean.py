#!/usr/bin/env python3
"""asm2lean.py — translate the SCALAR assembly of the sandy2x X25519 backend into Lean instruction lists.

  crypto_scalarmult/curve25519/sandy2x/fe51_pack.S, fe51_mul.S, fe51_nsquare.S (+ consts.S for `SYM(%rip)` constants)
      ->  Generated/Sandy2xAsm.lean   (namespace Generated.Sandy2xAsm; types of SodiumModel/Model/X86Scalar.lean)

usage: asm2lean.py <repo_src (…/src/libsodium)> <output.lean> [--dir <directory holding the .S files>]

The translator is deliberately narrow: every preprocessor line, directive, label, mnemonic, register and addressing mode must be
on its whitelist; anything else raises Refuse (exit code 2, message on stderr) — the model is never silently incomplete.
Control flow: only `label: … jCC label` (a backward conditional jump to the innermost open label = do-while); `ret` must be the last
instruction.  AT&T operand order is kept (source first).
"""
import os, re, sys

REL = "crypto_scalarmult/curve25519/sandy2x"
FILES = [("fe51_pack", "fe51_pack.S"), ("fe51_mul", "fe51_mul.S"), ("fe51_nsquare", "fe51_nsquare.S")]

REG64 = ["rax", "rcx", "rdx", "rbx", "rsp", "rbp", "rsi", "rdi", "r8", "r9", "r10", "r11", "r12", "r13", "r14", "r15"]
REG32 = {"eax": "rax", "ecx": "rcx", "edx": "rdx", "ebx": "rbx", "esi": "rsi", "edi": "rdi", "ebp": "rbp",
         **{"r%dd" % i: "r%d" % i for i in range(8, 16)}}
REG8 = {"al": "rax", "cl": "rcx", "dl": "rdx", "bl": "rbx", "sil": "rsi", "dil": "rdi", "bpl": "rbp",
        **{"r%db" % i: "r%d" % i for i in range(8, 16)}}
ALU = ["add", "adc", "sub", "sbb", "and", "or", "xor", "cmp", "test"]
CONDS = ["a", "ae", "b", "be", "e", "ne", "l", "ge", "le", "g"]
COND_ALIAS = {"z": "e", "nz": "ne", "nbe": "a", "nb": "ae", "nae": "b", "c": "b", "nc": "ae", "na": "be", "nge": "l", "nl": "ge", "ng": "le", "nle": "g"}
INCLUDES_OK = {'"private/asm_cet.h"', '"fe51_namespace.h"', '"consts_namespace.h"'}
DIRECTIVES_OK = {".p2align", ".text", ".globl", ".type"}
M64 = (1 << 64) - 1


class Refuse(Exception):
    pass


def strip_comments(text):
    return re.sub(r"/\*.*?\*/", lambda m: "\n" * m.group(0).count("\n"), text, flags=re.S)


def parse_consts(path):
    """consts.S: `NAME: .quad a[, b]` -> {NAME: [a, b]}"""
    out = {}
    for ln in strip_comments(open(path).read()).split("\n"):
        m = re.match(r"^\s*([A-Za-z_][A-Za-z0-9_]*)\s*:\s*\.quad\s+(.*)$", ln)
        if m:
            out[m.group(1)] = [int(x.strip(), 0) for x in m.group(2).split(",")]
    return out


def u64(v):
    return "0x%016X" % (v & M64)


def imm32(tok, where):
    if not tok.startswith("$"):
        raise Refuse("%s: immediate expected, got %r" % (where, tok))
    try:
        v = int(tok[1:], 0)
    except ValueError:
        raise Refuse("%s: unparsable immediate %r" % (where, tok))
    if not (-(1 << 31) <= v < (1 << 31)):
        raise Refuse("%s: immediate %r does not fit a sign-extended imm32" % (where, tok))
    return v


def reg64(tok, where):
    if tok.startswith("%") and tok[1:] in REG64:
        return tok[1:]
    raise Refuse("%s: 64-bit register expected, got %r" % (where, tok))


def split_operands(s):
    out, depth, cur = [], 0, ""
    for ch in s:
        if ch == "(":
            depth += 1
        if ch == ")":
            depth -= 1
        if ch == "," and depth == 0:
            out.append(cur.strip()); cur = ""
        else:
            cur += ch
    if cur.strip():
        out.append(cur.strip())
    return out


def mem_operand(tok, consts, where):
    """disp(%base) | SYM(%rip) -> ('mem', base, disp) | ('rip', value); None if not a memory operand"""
    m = re.match(r"^([A-Za-z_][A-Za-z0-9_]*)\(%rip\)$", tok)
    if m:
        if m.group(1) not in consts:
            raise Refuse("%s: unknown rip-relative symbol %r (not in consts.S)" % (where, m.group(1)))
        return ("rip", consts[m.group(1)][0], m.group(1))
    m = re.match(r"^(-?(?:0x[0-9A-Fa-f]+|\d+))?\(%([a-z0-9]+)\)$", tok)
    if m:
        if m.group(2) not in REG64:
            raise Refuse("%s: base register %r is not a 64-bit GPR" % (where, m.group(2)))
        d = int(m.group(1), 0) if m.group(1) else 0
        if not (-(1 << 31) <= d < (1 << 31)):
            raise Refuse("%s: displacement out of range in %r" % (where, tok))
        return ("mem", m.group(2), d)
    if "(" in tok:
        raise Refuse("%s: unsupported addressing mode %r" % (where, tok))
    return None


def opnd(tok, consts, where, allow_imm=True):
    if tok.startswith("$"):
        if not allow_imm:
            raise Refuse("%s: immediate not allowed here: %r" % (where, tok))
        return ".imm %s" % u64(imm32(tok, where))
    if tok.startswith("%"):
        return ".reg .%s" % reg64(tok, where)
    mo = mem_operand(tok, consts, where)
    if mo is None:
        raise Refuse("%s: unsupported operand %r" % (where, tok))
    if mo[0] == "rip":
        return ".rip %s" % u64(mo[1])
    return ".mem .%s %s" % (mo[1], u64(mo[2]))


def is_mem(tok):
    return "(" in tok


def translate_instr(mn, ops, consts, where):
    """-> Lean term of type Instr, or ('jcc', cond, label) / ('ret',)"""
    base = mn[:-1] if mn.endswith("q") and mn[:-1] in (["mov", "imul", "mul", "push", "pop", "neg", "shl", "shr", "shld", "shrd", "lea"] + ALU) else mn
    if base == "ret":
        if ops:
            raise Refuse("%s: ret with operands" % where)
        return ("ret",)
    if base.startswith("j") and base != "jmp":
        c = base[1:]
        c = COND_ALIAS.get(c, c)
        if c not in CONDS or len(ops) != 1:
            raise Refuse("%s: unsupported jump %r" % (where, mn))
        return ("jcc", c, ops[0])
    if base == "mov":
        if len(ops) != 2:
            raise Refuse("%s: mov needs 2 operands" % where)
        if is_mem(ops[0]) and is_mem(ops[1]):
            raise Refuse("%s: mov memory to memory" % where)
        if ops[1].startswith("$") or ops[1].endswith("(%rip)"):
            raise Refuse("%s: bad mov destination %r" % (where, ops[1]))
        return ".mov (%s) (%s)" % (opnd(ops[0], consts, where), opnd(ops[1], consts, where, False))
    if mn == "movb":
        if len(ops) != 2 or not ops[0].startswith("%") or ops[0][1:] not in REG8:
            raise Refuse("%s: movb: only `movb %%<low byte register>, disp(%%reg)` is supported" % where)
        mo = mem_operand(ops[1], consts, where)
        if mo is None or mo[0] != "mem":
            raise Refuse("%s: movb destination must be disp(%%reg): %r" % (where, ops[1]))
        return ".movb .%s .%s %s" % (REG8[ops[0][1:]], mo[1], u64(mo[2]))
    if base == "lea":
        if len(ops) != 2:
            raise Refuse("%s: lea needs 2 operands" % where)
        dst = reg64(ops[1], where)
        m = re.match(r"^(-?(?:0x[0-9A-Fa-f]+|\d+))?\(%([a-z0-9]+)(?:,%([a-z0-9]+))?\)$", ops[0].replace(" ", ""))
        if not m or m.group(2) not in REG64 or (m.group(3) and m.group(3) not in REG64):
            raise Refuse("%s: unsupported lea address %r (only disp(%%base[,%%index]) with scale 1)" % (where, ops[0]))
        d = int(m.group(1), 0) if m.group(1) else 0
        idx = "(some .%s)" % m.group(3) if m.group(3) else "none"
        return ".lea .%s %s %s .%s" % (m.group(2), idx, u64(d), dst)
    if base in ALU:
        if len(ops) != 2:
            raise Refuse("%s: %s needs 2 operands" % (where, mn))
        if ops[1].startswith("%") and ops[1][1:] in REG32:
            if base != "and" or mn != "and" or not ops[0].startswith("$"):
                raise Refuse("%s: the only supported 32-bit instruction is `and $imm, %%e..`: %s %s" % (where, mn, ",".join(ops)))
            v = imm32(ops[0], where)
            if v < 0:
                raise Refuse("%s: negative immediate in 32-bit and" % where)
            return ".and32 0x%08X .%s" % (v, REG32[ops[1][1:]])
        if is_mem(ops[0]) and is_mem(ops[1]):
            raise Refuse("%s: two memory operands" % where)
        if ops[1].startswith("$") or ops[1].endswith("(%rip)"):
            raise Refuse("%s: bad destination %r" % (where, ops[1]))
        return ".alu .%s (%s) (%s)" % (base, opnd(ops[0], consts, where), opnd(ops[1], consts, where, False))
    if base == "neg":
        if len(ops) != 1:
            raise Refuse("%s: neg needs 1 operand" % where)
        return ".neg .%s" % reg64(ops[0], where)
    if base in ("shl", "shr"):
        if len(ops) != 2:
            raise Refuse("%s: only `%s $k, %%reg` is supported" % (where, base))
        k = imm32(ops[0], where)
        if not 1 <= k <= 63:
            raise Refuse("%s: shift count %d outside 1..63" % (where, k))
        return ".%s %d .%s" % (base, k, reg64(ops[1], where))
    if base in ("shld", "shrd"):
        if len(ops) != 3:
            raise Refuse("%s: only `%s $k, %%src, %%dst` is supported" % (where, base))
        k = imm32(ops[0], where)
        if not 1 <= k <= 63:
            raise Refuse("%s: shift count %d outside 1..63" % (where, k))
        return ".%s %d .%s .%s" % (base, k, reg64(ops[1], where), reg64(ops[2], where))
    if base == "imul":
        if len(ops) != 3:
            raise Refuse("%s: only the 3-operand form `imulq $imm, src, %%dst` is supported" % where)
        v = imm32(ops[0], where)
        return ".imul3 %s (%s) .%s" % (u64(v), opnd(ops[1], consts, where, False), reg64(ops[2], where))
    if base == "mul":
        if len(ops) != 1:
            raise Refuse("%s: mul needs 1 operand" % where)
        return ".mul (%s)" % opnd(ops[0], consts, where, False)
    if base.startswith("cmov"):
        c = base[4:]
        c = COND_ALIAS.get(c, c)
        if c not in CONDS or len(ops) != 2:
            raise Refuse("%s: unsupported conditional move %r" % (where, mn))
        return ".cmov .%s .%s .%s" % (c, reg64(ops[0], where), reg64(ops[1], where))
    if base in ("push", "pop"):
        if len(ops) != 1:
            raise Refuse("%s: %s needs 1 operand" % (where, base))
        return ".%s .%s" % (base, reg64(ops[0], where))
    raise Refuse("%s: unknown mnemonic %r (operands %r)" % (where, mn, ops))


def translate_file(path, fname, consts):
    """-> list of blocks: ('straight', [(lean, src)]) | ('doWhile', [(lean, src)], cond, label)"""
    text = strip_comments(open(path).read())
    blocks, cur, open_label, open_start = [], [], None, None
    ppstack, seen_entry, done = [], False, False
    base = os.path.basename(path)
    for no, raw in enumerate(text.split("\n"), 1):
        ln = raw.strip()
        where = "%s:%d" % (base, no)
        if not ln:
            continue
        if ln.startswith("#"):
            m = re.match(r"^#\s*(ifdef|ifndef|endif|include|if|else|elif|define|undef)\b\s*(.*)$", ln)
            if not m:
                raise Refuse("%s: unsupported preprocessor line %r" % (where, ln))
            d, arg = m.group(1), m.group(2).strip()
            if d == "ifdef" and arg in ("IN_SANDY2X", "ASM_HIDE_SYMBOL", "__ELF__"):
                ppstack.append(arg)
            elif d == "endif" and ppstack:
                ppstack.pop()
            elif d == "include" and arg in INCLUDES_OK:
                pass
            else:
                raise Refuse("%s: unsupported preprocessor line %r" % (where, ln))
            continue
        if ppstack and ppstack[-1] == "ASM_HIDE_SYMBOL":
            if not re.match(r"^ASM_HIDE_SYMBOL\s+_?%s$" % fname, ln):
                raise Refuse("%s: unexpected line inside #ifdef ASM_HIDE_SYMBOL: %r" % (where, ln))
            continue
        if ppstack and ppstack[-1] == "__ELF__":
            if not re.match(r"^\.type\s+_?%s\s*,\s*@function$" % fname, ln):
                raise Refuse("%s: unexpected line inside #ifdef __ELF__: %r" % (where, ln))
            continue
        if ppstack != ["IN_SANDY2X"]:
            raise Refuse("%s: code outside #ifdef IN_SANDY2X: %r" % (where, ln))
        if ln == "_CET_ENDBR":      # endbr64: a no-op for the data flow
            if cur or blocks:
                raise Refuse("%s: _CET_ENDBR after the first instruction" % where)
            continue
        if ln.startswith("."):
            m = re.match(r"^(\.[A-Za-z0-9_]+)\s*:$", ln)
            if m:                      # local label
                if not seen_entry:
                    raise Refuse("%s: local label before the entry label" % where)
                if open_label is not None:
                    raise Refuse("%s: label %s inside the open loop %s (nested / unstructured control flow)" % (where, m.group(1), open_label))
                if cur:
                    blocks.append(("straight", cur)); cur = []
                open_label = m.group(1)
                continue
            d = ln.split()[0]
            if d not in DIRECTIVES_OK:
                raise Refuse("%s: unsupported directive %r" % (where, ln))
            if d == ".globl" and not re.match(r"^\.globl\s+_?%s$" % fname, ln):
                raise Refuse("%s: unexpected .globl %r" % (where, ln))
            continue
        m = re.match(r"^([A-Za-z_][A-Za-z0-9_]*)\s*:$", ln)
        if m:
            if m.group(1) not in (fname, "_" + fname):
                raise Refuse("%s: unexpected global label %r" % (where, m.group(1)))
            if cur or blocks:
                raise Refuse("%s: entry label %r after the first instruction" % (where, m.group(1)))
            seen_entry = True
            continue
        if not seen_entry:
            raise Refuse("%s: instruction before the entry label: %r" % (where, ln))
        if done:
            raise Refuse("%s: instruction after ret: %r" % (where, ln))
        parts = ln.split(None, 1)
        mn = parts[0]
        ops = split_operands(parts[1]) if len(parts) > 1 else []
        t = translate_instr(mn, ops, consts, where)
        src = re.sub(r"\s+", " ", ln)
        if isinstance(t, tuple) and t[0] == "ret":
            if open_label is not None:
                raise Refuse("%s: ret inside the open loop %s" % (where, open_label))
            done = True
            continue
        if isinstance(t, tuple) and t[0] == "jcc":
            if open_label is None or t[2] != open_label:
                raise Refuse("%s: jump to %r is not a backward jump to the innermost open label (%r): unstructured control flow" % (where, t[2], open_label))
            if not cur:
                raise Refuse("%s: empty loop body" % where)
            blocks.append(("doWhile", cur, t[1], open_label, src)); cur = []; open_label = None
            continue
        cur.append((t, src))
    if open_label is not None:
        raise Refuse("%s: label %s is never jumped to" % (base, open_label))
    if not done:
        raise Refuse("%s: no ret" % base)
    if ppstack:
        raise Refuse("%s: unbalanced #ifdef" % base)
    if cur:
        blocks.append(("straight", cur))
    return blocks


def generate(repo_src, asm_dir=None):
    d = asm_dir or os.path.join(repo_src, REL)
    consts = parse_consts(os.path.join(d, "consts.S"))
    if "REDMASK51" not in consts:
        raise Refuse("consts.S: REDMASK51 not found")
    out = ["import SodiumModel.Model.X86Scalar",
           "/-! GENERATED by tools_new/asm2lean.py from %s/{fe51_pack.S, fe51_mul.S, fe51_nsquare.S, consts.S} — do not edit." % REL,
           "    AT&T operand order (source first).  One `List Instr` per basic block, one `Prog` per function. -/",
           "namespace Generated.Sandy2xAsm",
           "open Sodium.Model.X86Scalar",
           "",
           "/-- consts.S -/"]
    for k in sorted(consts):
        out.append("def const_%s : List UInt64 := [%s]" % (k, ", ".join(u64(v) for v in consts[k])))
    info = {}
    for fname, fn in FILES:
        blocks = translate_file(os.path.join(d, fn), fname, consts)
        names = []
        n_instr = 0
        for i, b in enumerate(blocks):
            nm = "%s_b%d" % (fname, i)
            out.append("")
            if b[0] == "doWhile":
                out.append("/-- %s, block %d: body of the loop `%s: … %s` -/" % (fn, i, b[3], b[4]))
            else:
                out.append("/-- %s, block %d (straight-line) -/" % (fn, i))
            out.append("def %s : List Instr := [" % nm)
            lines = b[1]
            for j, (t, src) in enumerate(lines):
                out.append("  %s%s   -- %s" % (t, "," if j + 1 < len(lines) else "", src))
            out.append("]")
            names.append(".doWhile %s .%s" % (nm, b[2]) if b[0] == "doWhile" else ".straight %s" % nm)
            n_instr += len(lines) + (1 if b[0] == "doWhile" else 0)
        out.append("")
        out.append("/-- `%s` from its entry label to `ret` (%d instructions) -/" % (fname, n_instr + 1))
        out.append("def %s : Prog := [%s]" % (fname, ", ".join(names)))
        info[fname] = {"blocks": len(blocks), "instructions": n_instr + 1}
    out.append("")
    out.append("end Generated.Sandy2xAsm")
    return "\n".join(out) + "\n", info


if __name__ == "__main__":
    import argparse
    ap = argparse.ArgumentParser()
    ap.add_argument("repo_src")
    ap.add_argument("output")
    ap.add_argument("--dir", default=None)
    a = ap.parse_args()
    try:
        text, info = generate(a.repo_src, a.dir)
    except Refuse as e:
        sys.stderr.write("asm2lean: REFUSED: %s\n" % e)
        sys.exit(2)
    open(a.output, "w").write(text)
    print("asm2lean: %s" % ", ".join("%s: %d blocks / %d instructions" % (k, v["blocks"], v["instructions"]) for k, v in info.items()))
