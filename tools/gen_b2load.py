#!/usr/bin/env python3
"""
Generate SodiumModel/Model/Blake2bSimdLoad.lean from the BLAKE2b message-load headers of libsodium.

  blake2b-load-avx2.h   48 macros BLAKE2B_LOAD_MSG_r_k(b0)   (t0 = E; t1 = E; b0 = E;)
  blake2b-load-sse2.h   48 macros LOAD_MSG_r_k(b0, b1)       (b0 = E; b1 = E)      [used by the SSSE3 code]
  blake2b-load-sse41.h  48 macros LOAD_MSG_r_k(b0, b1)       (b0 = E; b1 = E;)

Every macro body is parsed (a tiny recursive-descent parser for `ident`, integer literal,
`f(arg, …)`), checked to have exactly the expected assignment shape, and printed as a Lean
definition whose right-hand sides are the SAME expression trees with C calls `f(a, b)` written as
Lean applications `(f a b)` and the message variables `mN` written `w.mN`.  Nothing is evaluated
or simplified.  The dispatchers `BLAKE2B_LOAD_MSG r k` / `LOAD_MSG r k` model the token pasting
`LOAD_MSG_##r##_k` of the ROUND macros.

The script also checks that blake2b-compress-ssse3.h and blake2b-compress-sse41.h are textually
identical apart from their include guard and the load header they include (the model transcribes
their G1/G2/DIAGONALIZE/UNDIAGONALIZE/ROUND/_mm_roti_epi64 macros once).

Usage:   python3 tools_gen_b2load.py [SRC_DIR] [OUT_FILE]
         python3 tools_gen_b2load.py --check [SRC_DIR] [OUT_FILE]     (exit 1 if OUT_FILE differs)
Defaults: SRC_DIR = /repo/src/libsodium/crypto_generichash/blake2b/ref
          OUT_FILE = <dir of this script>/SodiumModel/Model/Blake2bSimdLoad.lean
The output is deterministic (no dates, no paths).  It also records fingerprints of the six
hand-transcribed files (blake2b-compress-{avx2,ssse3,sse41}.{c,h}), so `--check` detects a change
of ANY source text the SIMD model depends on.
"""
import hashlib
import os
import re
import sys

DEFAULT_SRC = "/repo/src/libsodium/crypto_generichash/blake2b/ref"
HERE = os.path.dirname(os.path.abspath(__file__))
DEFAULT_OUT = os.path.join(HERE, "SodiumModel", "Model", "Blake2bSimdLoad.lean")


# ---------------------------------------------------------------- C macro extraction
def macros(text):
    """name -> (params, body) for every function-like #define (continuation lines joined)"""
    text = re.sub(r"/\*.*?\*/", " ", text, flags=re.S)
    lines = text.split("\n")
    out = {}
    order = []
    i = 0
    while i < len(lines):
        line = lines[i]
        m = re.match(r"\s*#\s*define\s+(\w+)\(([^)]*)\)(.*)$", line)
        if m:
            name, params, rest = m.group(1), m.group(2), m.group(3)
            body = rest
            while body.rstrip().endswith("\\"):
                body = body.rstrip()[:-1] + "\n"
                i += 1
                body += lines[i]
            if name in out:
                raise SystemExit(f"macro {name} defined twice")
            out[name] = ([p.strip() for p in params.split(",")], body)
            order.append(name)
        i += 1
    return out, order


# ---------------------------------------------------------------- expression parser
TOK = re.compile(r"\s*(0[xX][0-9a-fA-F]+|\d+|\w+|[(),])")


def tokenize(s):
    toks = []
    pos = 0
    s = s.strip()
    while pos < len(s):
        m = TOK.match(s, pos)
        if not m:
            raise SystemExit(f"cannot tokenize expression: {s!r} at {pos}")
        toks.append(m.group(1))
        pos = m.end()
    return toks


def parse_expr(toks, i):
    t = toks[i]
    if re.fullmatch(r"0[xX][0-9a-fA-F]+|\d+", t):
        return ("lit", t), i + 1
    if not re.fullmatch(r"\w+", t):
        raise SystemExit(f"unexpected token {t!r}")
    if i + 1 < len(toks) and toks[i + 1] == "(":
        args = []
        i += 2
        while True:
            a, i = parse_expr(toks, i)
            args.append(a)
            if toks[i] == ",":
                i += 1
                continue
            if toks[i] == ")":
                return ("call", t, args), i + 1
            raise SystemExit(f"unexpected token {toks[i]!r} in call")
    return ("id", t), i + 1


def parse(s):
    toks = tokenize(s)
    e, i = parse_expr(toks, 0)
    if i != len(toks):
        raise SystemExit(f"trailing tokens in {s!r}")
    return e


ALLOWED_FUNCS = {
    "_mm256_unpacklo_epi64", "_mm256_unpackhi_epi64", "_mm256_blend_epi32", "_mm256_alignr_epi8",
    "_mm256_shuffle_epi32", "_MM_SHUFFLE", "_mm_set_epi64x", "_mm_unpacklo_epi64", "_mm_unpackhi_epi64",
    "_mm_alignr_epi8", "_mm_shuffle_epi32", "_mm_blend_epi16",
}


def lean(e, msgvars, locals_):
    kind = e[0]
    if kind == "lit":
        t = e[1]
        if len(t) > 1 and t[0] == "0" and t[1] not in "xX":
            raise SystemExit(f"octal literal {t}")
        return t
    if kind == "id":
        n = e[1]
        if n in locals_:
            return n
        if n in msgvars:
            return "w." + n
        raise SystemExit(f"unknown identifier {n}")
    _, f, args = e
    if f not in ALLOWED_FUNCS:
        raise SystemExit(f"unexpected function {f}")
    return "(" + " ".join([f] + [lean(a, msgvars, locals_) for a in args]) + ")"


def strip_paren(s):
    return s[1:-1] if s.startswith("(") and s.endswith(")") else s


def statements(body):
    """the `x = E` statements of a macro body, with an optional do { … } while (0) wrapper removed"""
    b = " ".join(body.split())
    m = re.fullmatch(r"do \{ (.*) \} while \(0\)", b)
    if m:
        b = m.group(1)
    stmts = [s.strip() for s in b.split(";") if s.strip()]
    out = []
    for s in stmts:
        m = re.fullmatch(r"(\w+) = (.*)", s)
        if not m:
            raise SystemExit(f"not an assignment: {s!r}")
        out.append((m.group(1), parse(m.group(2))))
    return out


def gen_family(text, prefix, params, shape, msgvars, wtype, rtype, result):
    ms, _ = macros(text)
    defs = []
    for r in range(12):
        for k in range(1, 5):
            name = f"{prefix}_{r}_{k}"
            if name not in ms:
                raise SystemExit(f"missing macro {name}")
            p, body = ms[name]
            if p != params:
                raise SystemExit(f"{name}: parameters {p} != {params}")
            st = statements(body)
            if [v for v, _ in st] != shape:
                raise SystemExit(f"{name}: assignment shape {[v for v, _ in st]} != {shape}")
            lines = [f"def {name} (w : {wtype}) : {rtype} :="]
            seen = set()
            for v, e in st:
                lines.append(f"  let {v} := {strip_paren(lean(e, msgvars, seen))}")
                seen.add(v)
            lines.append(f"  {result}")
            defs.append("\n".join(lines))
    extra = sorted(n for n in ms if n.startswith(prefix + "_") and not re.fullmatch(prefix + r"_(\d|1[01])_[1-4]", n))
    if extra:
        raise SystemExit(f"unexpected macros {extra}")
    disp = [f"/-- the token pasting `{prefix}_##r##_k` -/",
            f"def {prefix} (r k : Nat) (w : {wtype}) : {rtype} :=", "  match r, k with"]
    for r in range(12):
        for k in range(1, 5):
            disp.append(f"  | {r}, {k} => {prefix}_{r}_{k} w")
    disp.append("  | _, _ => default")
    return "\n\n".join(defs) + "\n\n" + "\n".join(disp)


def check_sse_headers_identical(src):
    a = open(os.path.join(src, "blake2b-compress-ssse3.h")).read()
    b = open(os.path.join(src, "blake2b-compress-sse41.h")).read()
    a = a.replace("blake2b_compress_ssse3_H", "GUARD").replace('"blake2b-load-sse2.h"', "LOADHDR")
    b = b.replace("blake2b_compress_sse41_H", "GUARD").replace('"blake2b-load-sse41.h"', "LOADHDR")
    if a != b:
        raise SystemExit("blake2b-compress-ssse3.h and blake2b-compress-sse41.h differ (beyond guard / load header)")


HAND_TRANSCRIBED = ["blake2b-compress-avx2.c", "blake2b-compress-avx2.h", "blake2b-compress-ssse3.c",
                    "blake2b-compress-ssse3.h", "blake2b-compress-sse41.c", "blake2b-compress-sse41.h"]


def fingerprint(path):
    """comment-stripped, whitespace-normalised SHA-256 (first 24 hex digits), as tools/fingerprint.py"""
    s = open(path).read()
    s = re.sub(r"/\*.*?\*/", " ", s, flags=re.S)
    s = re.sub(r"//[^\n]*", " ", s)
    s = re.sub(r"\s+", " ", s).strip()
    return hashlib.sha256(s.encode()).hexdigest()[:24]


def pins(src):
    lines = ["/-! ### source fingerprints of the HAND-transcribed files (Model/Blake2bSimd.lean was written from these",
             "    texts; comment-stripped, whitespace-normalised SHA-256, 24 hex digits).  A change here means the",
             "    macros / functions modelled by hand must be re-read, re-transcribed and re-proved.",
             ""]
    for f in HAND_TRANSCRIBED:
        lines.append(f"      {f} {fingerprint(os.path.join(src, f))}")
    lines.append("-/")
    return "\n".join(lines) + "\n"


HEADER = '''import SodiumModel.Model.Blake2bSimdIntrin
/-
  GENERATED by tools_gen_b2load.py from
    crypto_generichash/blake2b/ref/blake2b-load-avx2.h, blake2b-load-sse2.h, blake2b-load-sse41.h
  DO NOT EDIT: re-run `python3 tools_gen_b2load.py` (or `--check` to compare with the source).

  Every `…LOAD_MSG_r_k` macro is transcribed as a definition with the same expression trees
  (C call `f(a, b)` = Lean application `f a b`; the message variables `mN` in scope at the macro
  expansion are the fields `w.mN`).  In the AVX2 macros `t0`, `t1` are locals declared by
  DECLARE_MESSAGE_WORDS; every macro assigns both before reading them, so they carry no state
  between macros and are `let`s here (the generator checks the assignment shape t0, t1, b0).
  Also checked by the generator: blake2b-compress-ssse3.h and blake2b-compress-sse41.h are
  textually identical apart from the include guard and the included load header.
-/
namespace Sodium.Model.Blake2bSimd

/-- the variables `m0 … m7` (`__m256i`) declared by `DECLARE_MESSAGE_WORDS` (blake2b-compress-avx2.h) -/
structure Msg256 where
  m0 : M256
  m1 : M256
  m2 : M256
  m3 : M256
  m4 : M256
  m5 : M256
  m6 : M256
  m7 : M256

/-- the variables `m0 … m7` (`__m128i`) of `blake2b_compress_sse41` -/
structure Msg128 where
  m0 : M128
  m1 : M128
  m2 : M128
  m3 : M128
  m4 : M128
  m5 : M128
  m6 : M128
  m7 : M128

/-- the variables `m0 … m15` (`uint64_t`) of `blake2b_compress_ssse3` -/
structure Msg64 where
  m0 : UInt64
  m1 : UInt64
  m2 : UInt64
  m3 : UInt64
  m4 : UInt64
  m5 : UInt64
  m6 : UInt64
  m7 : UInt64
  m8 : UInt64
  m9 : UInt64
  m10 : UInt64
  m11 : UInt64
  m12 : UInt64
  m13 : UInt64
  m14 : UInt64
  m15 : UInt64
'''


def generate(src):
    check_sse_headers_identical(src)
    avx2 = open(os.path.join(src, "blake2b-load-avx2.h")).read()
    sse2 = open(os.path.join(src, "blake2b-load-sse2.h")).read()
    sse41 = open(os.path.join(src, "blake2b-load-sse41.h")).read()
    m8 = {f"m{i}" for i in range(8)}
    m16 = {f"m{i}" for i in range(16)}
    parts = [HEADER, pins(src)]
    parts.append("/-! ### blake2b-load-avx2.h -/\nnamespace Avx2\n")
    parts.append(gen_family(avx2, "BLAKE2B_LOAD_MSG", ["b0"], ["t0", "t1", "b0"], m8, "Msg256", "M256", "b0"))
    parts.append("\nend Avx2\n")
    parts.append("/-! ### blake2b-load-sse2.h (included by blake2b-compress-ssse3.h) -/\nnamespace Sse2\n")
    parts.append(gen_family(sse2, "LOAD_MSG", ["b0", "b1"], ["b0", "b1"], m16, "Msg64", "M128 × M128", "(b0, b1)"))
    parts.append("\nend Sse2\n")
    parts.append("/-! ### blake2b-load-sse41.h -/\nnamespace Sse41\n")
    parts.append(gen_family(sse41, "LOAD_MSG", ["b0", "b1"], ["b0", "b1"], m8, "Msg128", "M128 × M128", "(b0, b1)"))
    parts.append("\nend Sse41\n")
    parts.append("end Sodium.Model.Blake2bSimd\n")
    return "\n".join(parts)


def main():
    args = sys.argv[1:]
    check = False
    if args and args[0] == "--check":
        check = True
        args = args[1:]
    src = args[0] if len(args) > 0 else DEFAULT_SRC
    out = args[1] if len(args) > 1 else DEFAULT_OUT
    text = generate(src)
    if check:
        cur = open(out).read() if os.path.exists(out) else None
        if cur != text:
            print(f"MISMATCH: {out} is not what the headers in {src} generate")
            sys.exit(1)
        print("ok: generated text identical")
        return
    with open(out, "w") as f:
        f.write(text)
    print(f"wrote {out} ({len(text)} bytes)")


if __name__ == "__main__":
    main()
