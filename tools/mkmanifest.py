#!/usr/bin/env python3
"""Regenerates MANIFEST.json from the registry below and validates it against the schema."""
import json, os, subprocess, sys
V = os.path.dirname(os.path.dirname(os.path.abspath(__file__)))

NOTE_COMMON = ("Trusted: Lean 4.33 kernel (axioms propext/Classical.choice/Quot.sound only, re-audited with #print axioms on every run); "
               "the hand-written model is tied to /repo's current tree by the correspondence run (harness/*.c + tools/*.py + gcc + compiled Lean driver) "
               "on the generated inputs only; ")

CHECKS = {
 "C14": dict(
    category="proof", design_ref="DESIGN.md §3.14",
    technique="Lean 4 theorems over a hand-written model (induction on byte lists, carry/borrow invariants, omega); model-vs-implementation differential correspondence incl. exhaustive small operands",
    text=("Every helper (memcmp, verify16/32/64 generic and SSE2 bodies, is_zero, compare, increment/add/sub generic loops and the amd64 adc/sbb fast paths, memzero) is "
          "modelled with C's fixed-width arithmetic and proved in Lean, for all buffers and all lengths, to equal equality / sign of the little-endian difference / "
          "arithmetic mod 2^(8 len); the asm paths are proved equal to the generic loop. The model is tied to the code by running both on the same generated op lines "
          "(all lengths 0..130, every one-bit difference, every carry-chain length, exhaustive 1-byte and sampled/exhaustive 2-byte operands) in native and portable builds."),
    note=NOTE_COMMON + "inline assembly is transcribed by hand into add-with-carry chains; explicit_bzero is an external call."),
 "C16": dict(
    category="proof", design_ref="DESIGN.md §3.16",
    technique="Lean 4 theorems (loop invariants over the mask/barrier loops, full functional specification of pad and unpad, round-trip) + differential correspondence",
    text=("sodium_pad and sodium_unpad are modelled with 64-bit size_t arithmetic and C's mixed-width conversions; Lean proves for every buffer, length, block size and capacity "
          "(cap <= 2^56) that pad returns exactly data || 0x80 || 0^k with the minimal k reaching a positive multiple of the block size, fails without writing when it does not fit, "
          "misuses on SIZE_MAX overflow, touches only in-bounds indices; that unpad succeeds iff the final block ends in 0x80 0*, reads only the final block, and inverts pad. "
          "The model is tied to the code by running both on the same op lines (lengths 0..300 x block sizes 1..130 and powers of two x capacities, exhaustive small final blocks)."),
    note=NOTE_COMMON + "hypothesis cap <= 2^56 stated in the theorem (DESIGN §4-O2)."),
 "C15": dict(
    category="proof", design_ref="DESIGN.md §3.15",
    technique="Lean 4 theorems (character maps by 256-case kernel evaluation, encoder = RFC 4648 by induction on 3-byte groups, decode round-trip, capacity, strictness) + exhaustive short-text differential correspondence",
    text=("bin2hex/hex2bin/bin2base64/base642bin are modelled as written (state machines, Pornin masks, accumulator arithmetic); Lean proves the character maps equal the RFC tables, "
          "the encoders equal RFC 4648 / lower-case hex for every input, decode(encode x) = x for every variant and capacity, never more than the capacity is written, and the acceptance "
          "characterisations. The model is tied to the code by running both on all byte strings 0..70, mutated encodings, and exhaustively on all texts up to 2 (quick) / 3 (thorough) "
          "characters over the full byte alphabet x variants x ignore sets x end-pointer."),
    note=NOTE_COMMON + "two genuine defects found through this property were repaired (known_findings.json, fix: commits)."),
 "C03": dict(
    category="proof", design_ref="DESIGN.md §3.3",
    technique="Lean 4 theorems over a model parameterised by the block function (counter-word carry invariant, tail handling, offset law, IETF guard arithmetic) + differential correspondence against Spec ChaCha20/Salsa20 on every backend",
    text=("The drivers around the block functions (ChaCha20 original/IETF/XChaCha20, Salsa20/2012/208, XSalsa20) are modelled as written: 32-bit counter words with carry, byte-wise Salsa counter, "
          "partial last block, XOR forms, the IETF no-wrap guard in 64-bit arithmetic. Lean proves for every length and every initial counter that the output is message XOR the specification "
          "keystream at offset 64*ic, including across the 2^32 carry and the 2^64 wrap, and that the IETF form refuses exactly the requests that would pass block 2^32. "
          "Block functions themselves are tied to the executable RFC 8439 / Salsa20 specification by correspondence on every length 0..2304 and every backend reachable by CPU masks and build variants."),
    note=NOTE_COMMON + "block/round functions are parameters of the theorems (translation-validated, not proved)."),
 "C04": dict(
    category="proof", design_ref="DESIGN.md §3.4",
    technique="Lean 4 theorems (buffer/counter invariants by induction over the chunk list; padding; HMAC/HKDF algebra over a chunk-law hypothesis) + differential correspondence against executable FIPS 180-4 / RFC 7693 / RFC 8439 / RFC 5869 specs on every backend",
    text=("The streaming front-ends (SHA-256/512 count+buf with the two-branch padding, BLAKE2b lazy two-block buffer with key block and last-block flag, Poly1305 leftover buffer, HMAC inner/outer "
          "contexts with long-key hashing, HKDF counter chaining, BLAKE2b subkey derivation, generichash range checks) are modelled as written with the compression functions as parameters; Lean proves "
          "that ANY split into update chunks (empty ones included) yields the one-shot specification value, that HKDF-expand is RFC 5869 for every output length and errors beyond 255 blocks, and the exact "
          "error conditions. Compression functions and the Poly1305 limb code are tied to the executable specifications by correspondence on every length 0..1100, adversarial Poly1305 accumulators, all "
          "BLAKE2b key/output lengths, on every backend reachable by CPU masks and build variants (ref/SSSE3/SSE4.1/AVX2, donna64/donna32/SSE2)."),
    note=NOTE_COMMON + "compression/round functions and limb arithmetic are parameters of the theorems (translation-validated, not proved)."),
 "C08": dict(
    category="proof", design_ref="DESIGN.md §3.8",
    technique="Lean 4 theorems over a model of the Argon2 / scrypt front-ends with the cores as parameters (decimal and Base64 field codecs, string encode / decode round trip and strictness, verify = decode + recompute + compare, needs_rehash decision, limit ladders, memory rounding) + differential correspondence against RFC 9106 / RFC 7914 executable specifications on every block-fill backend",
    text=("The string layer and parameter handling of crypto_pwhash (Argon2i / Argon2id) and crypto_pwhash_scryptsalsa208sha256 are modelled as written; Lean proves for all inputs: the decimal decoder accepts exactly minimal decimals below 2^32, "
          "encode produces exactly the standard $argon2..$v=19$m=,t=,p=$salt$hash form and decode inverts it, verify returns 0 iff the string decodes and the recomputed tag equals the stored one, needs_rehash is the stated three-way decision "
          "(with the as-built quirks stated as theorems: lanes ignored, memlimit compared in KiB), the raw functions equal an explicit error ladder followed by the core, and the block count rounding equals RFC 9106's m'. The model is tied to the code by "
          "running both on raw hashes over all limit boundaries and memory sizes, produced strings, and every mutation class of well-formed strings (6400 ops quick, 29000 thorough) on the AVX-512 / AVX2 / SSSE3 / reference fill code; the cores are the "
          "executable RFC specifications (translation validation). One known finding: scrypt clamps out-of-range cost parameters instead of rejecting them."),
    note=NOTE_COMMON + "cores are parameters (TV against the RFC specs); scrypt $7$ round trip on instances only; allocation failure under C20."),
 "C09": dict(
    category="proof", design_ref="DESIGN.md §3.9",
    technique="Lean 4 theorems (one-step push/pull synchronisation, induction over histories of pushes and rekeys, injectivity of the MAC-input encoding, counter/rekey arithmetic) + stateful differential correspondence over random histories with forged pulls",
    text=("push/pull/rekey/init are modelled exactly as written (counter ‖ inonce nonce, block 0 Poly key, block 1 tag block, blocks 2.. message, the mis-padded MAC input, inonce ^= mac, increment, "
          "rekey on REKEY tag or counter wrap) with ChaCha20-IETF, Poly1305 and HChaCha20 as parameters. Lean proves for every state, message, ad, tag and every history of pushes and explicit rekeys "
          "that the receiver recovers the pushed messages and tags in order and ends in the sender's state (including counter ff ff ff ff), that short inputs are rejected, that a rejected pull "
          "has no state effect, that acceptance implies a valid MAC under the current chained state over an injective encoding of (ad, chunk). The model is tied to the code by random histories "
          "(push, rekey, genuine and forged pulls: replayed, skipped, swapped, truncated, bit-flipped, wrong-ad, foreign), comparing outputs and the full 44-byte state after every operation."),
    note=NOTE_COMMON + "'any deviation is rejected' beyond the MAC statement is MAC unforgeability (cryptographic), exercised by forged pulls only."),
 "C01": dict(
    category="proof", design_ref="DESIGN.md §3.1",
    technique="Lean 4 theorems over a model parameterised by keystream/MAC/H-core (MAC-data layout = RFC 8439, combined = detached || tag, block0 staging = stream at offset 32, NaCl form, decrypt∘encrypt = id) + differential correspondence against executable RFC 8439 / XSalsa20-Poly1305 / SP 800-38D / AEGIS specs on every backend",
    text=("ChaCha20-Poly1305 (original, IETF), XChaCha20-Poly1305, secretbox (XSalsa20, XChaCha20; detached, easy, NaCl zero-padded) are modelled as written with keystream, Poly1305 and H-cores as parameters; Lean proves "
          "the composition for every key, nonce, ad and message of any length: Poly key from block 0, ciphertext from block 1, the C padding arithmetic equals RFC 8439 pad16, all call forms agree byte for byte, "
          "and decryption of the output returns the message and its length. AES-256-GCM and AEGIS-128L/256 are compared against executable specifications (no structural model). The tie runs every message "
          "length 0..2100 and ad length 0..70 on every backend (CPU masks x build variants); the harness also requires form agreement and round trip on the implementation itself."),
    note=NOTE_COMMON + "primitives are parameters (tied by C03/C04 correspondence); AES-GCM/AEGIS: translation validation only; box/seal key agreement under C05."),
 "C02": dict(
    category="proof", design_ref="DESIGN.md §3.2",
    technique="Lean 4 theorems on the decision logic (success iff exact tag match via the proved crypto_verify_16 model, short inputs, failure outputs, injective MAC-data encodings) + forged-input differential correspondence (every bit flip / truncation / extension)",
    text=("For the ChaCha20-Poly1305 family and secretbox Lean proves: decryption succeeds iff the supplied tag equals the Poly1305 value of the (injectively encoded) input, any tag change is rejected, inputs shorter "
          "than the tag are rejected touching nothing, on failure the reported length is 0 and the output buffer is untouched or a constant filler, verify-only mode never writes. 'Any other modification is rejected' is "
          "MAC unforgeability and is stated as a _partial theorem (hypothesis: MAC differs); it is exercised on the real code by flipping every bit of tag/ciphertext/ad/nonce/key, every truncation and 17 extensions of "
          "valid tuples for all six AEADs and both secretbox variants, comparing return code, length and the whole sentinel-prefilled output buffer with the model."),
    note=NOTE_COMMON + "cryptographic (probabilistic) part is not provable: partial by nature; secretstream under C09, auth/onetimeauth verify under C04, sign_open under C06."),
 "C18": dict(
    category="proof", design_ref="DESIGN.md §3.18",
    technique="Lean 4 theorems (rejection-sampling semantics over arbitrary draw scripts, exact uniformity by a counting lemma over residues, DRG = ChaCha20-IETF keystream via the C03 development, scalar rejection loop, generators cover their secrets) + scripted-random-source differential correspondence",
    text=("randombytes_uniform, randombytes_buf_deterministic, the scalar rejection loop and key generation are modelled over an arbitrary script of draws; Lean proves: the threshold is 2^32 mod n, the "
          "result is the first accepted draw mod n and below n (0 for n < 2), exactly the draws up to it are consumed, every residue is hit by exactly (2^32 - 2^32 mod n)/n accepted values (exact uniformity), "
          "the deterministic generator equals the ChaCha20-IETF keystream under the 'LibsodiumDRG' nonce for every size up to 2^38 and misuses beyond, random scalars are the first canonical non-zero masked "
          "block, and key generators return exactly the requested bytes. The tie installs a scripted source through randombytes_set_implementation, logs every request size, and runs all 27 *_keygen, the "
          "keypair generators, secretstream init_push, box_seal and the core random point/scalar functions on scripts with every consumed byte perturbed."),
    note=NOTE_COMMON + "outputs of key-pair / point generators are compared against the executable X25519 / Ed25519 / Elligator / Ristretto specifications (translation validation)."),
 "C17": dict(
    category="proof", design_ref="DESIGN.md §3.17",
    technique="Lean 4 theorems on the 64-bit layout arithmetic (page rounding, end alignment, canary adjacency, base recovery, overflow guards) and the protection state machine over all histories + system-call-log and fork/probe correspondence",
    text=("_sodium_malloc / sodium_allocarray / sodium_free / sodium_mprotect_* are modelled with size_t = UInt64 and the page size a parameter, recording the mmap/mprotect/mlock/munmap calls. Lean proves for every "
          "request size and every power-of-two page size: the user region ends exactly at the trailing PROT_NONE page, the canary sits immediately before it inside the read-write area, the mapping base is "
          "recovered from the user pointer, no size_t expression wraps, oversize requests and overflowing count*size fail with ENOMEM; and for every history of protection requests the user pages carry the last "
          "requested protection while guard and header pages never change; free first makes the mapping read-write. The tie logs the real system calls (link-time wrappers) for every size 0..3 pages+1 and compares "
          "them, the user offset, fill and canary with the model; forked children probe the byte past the end, each canary byte, and all 120 protection histories of length <= 4 with read, write and free probes."),
    note=NOTE_COMMON + "kernel page-fault behaviour and raise()/abort() are observed, not proved; page size 4096 on this host."),
 "C20": dict(
    category="proof", design_ref="DESIGN.md §3.20",
    technique="Lean 4 theorems over allocation programs quantified over every failure oracle (fail-closed, balanced alloc/free, no double free) + exhaustive single- and suffix-fault injection through link-time allocator wrappers",
    text=("The allocation/free sequences of argon2_hash, argon2_verify, needs_rehash, the scrypt region handling and sodium_malloc are modelled as programs over an oracle telling which request succeeds. Lean proves for "
          "EVERY oracle (every fault schedule): a failed request implies return code -1, string verification never reports a match, success implies all requests succeeded, every obtained block is released exactly "
          "once and nothing is released twice. The tie wraps malloc/calloc/posix_memalign/mmap/free/munmap at link time and, for 23 entry points (raw, str, str_verify right/wrong password, needs_rehash, both "
          "algorithms and scrypt, guarded allocation), fails every request position alone and all from it on; return code, the full event sequence, live-block count and hash-string production must equal the model."),
    note=NOTE_COMMON + "failure is injected at the C library boundary; kernel OOM behaviour is out of scope."),
 "C10": dict(
    category="proof", design_ref="DESIGN.md §3.10",
    technique="Lean 4 theorems on the CPUID/XCR0 decoder model + kernel-checked (decide) selection-soundness obligations over picker tables regenerated from the source by a translator on every run + exhaustive decoder co-simulation through a guarded hook + shared-corpus correspondence on every configuration",
    text=("The feature decoder is modelled and proved sound (a reported feature implies its CPUID bit and, for AVX/AVX2/AVX-512F, the XSAVE/OSXSAVE bits and OS-enabled XCR0 state; avx512f -> avx2 -> avx) and tied to "
          "the code by running all 2^18 combinations of the relevant register bits through hook H2. The implementation pickers, aes256gcm_is_available and each selectable implementation's target ISA are regenerated "
          "from /repo's source for every build variant; the Lean kernel checks that for every architecturally closed feature set each picker selects code whose ISA is present, and the portable code with no features. "
          "Byte-identical results are checked by running one shared corpus (sub-sampled C01/C03/C04/C14/C15/C16/C18 families) under 8 CPU masks and 4 build variants against the model; reported flags must be a subset "
          "of /proc/cpuinfo and AES-256-GCM availability must equal pclmul & aesni & avx."),
    note=NOTE_COMMON + "translator (tools/c2lean_pickers.py, regex over gcc -E output) and the hand-stated ISA of the two assembly implementations are trusted; outputs per configuration are sampled, not proved."),
 "C05": dict(
    category="proof", design_ref="DESIGN.md §3.5",
    technique="Lean 4 theorems on the wrapper logic (failure iff all-zero output via the branch-free accumulate trick, blocklist loop exactness and soundness, clamp / top-bit lemmas, kx cross-equality given DH commutativity) + differential correspondence against the executable RFC 7748 ladder on every ladder backend, with both sides of every exchange computed",
    text=("crypto_scalarmult_curve25519's return-code logic, ref10's small-order blocklist loop, crypto_kx (incl. its NULL-pointer aliasing) and the box/kx seed and beforenm derivations are modelled as written with the ladder, "
          "BLAKE2b, SHA-512 and H-cores as parameters; Lean proves the decision logic for all inputs. That the ladder is RFC 7748 and that Diffie-Hellman commutes needs a formalised curve group law and is translation-validated: the "
          "implementation (sandy2x AVX assembly, ref10 51-bit and 25.5-bit limbs, portable build) is compared with the executable specification on low-order / non-canonical / twist / limb-structured points, all 32 clamp-bit patterns, "
          "and on both sides of every key exchange and box."),
    note=NOTE_COMMON + "group law, DH commutativity and field arithmetic are NOT proved (translation validation); kx_cross carries DH commutativity as an explicit hypothesis."),
 "C06": dict(
    category="proof", design_ref="DESIGN.md §3.6",
    technique="Lean 4 theorems on the verifier's decision logic and the canonical-S / canonical-A byte loops (= le < L / y < p), sign/open forms, abstract completeness + differential correspondence against the executable RFC 8032 specification with equation-satisfying forgeries",
    text=("The strict verifier is modelled branch by branch over an abstract group interface, the canonicity byte loops with C's widths; Lean proves they are exact, that the verifier accepts iff all conditions hold, the combined/open forms, "
          "and completeness over any group satisfying the module laws. The group law, SHA-512 and the concrete curve are translation-validated: signing and verification are compared with the executable specification for every message "
          "length 0..300, every bit flip of signature and key, S + kL, high-bit S, all 8 torsion points and their non-canonical aliases as A and as R, torsion-shifted R and A with matching S (forgeries that satisfy the equation so that "
          "exactly one check must stop them), pre-hashed multi-part signing, and key conversion."),
    note=NOTE_COMMON + "point arithmetic and hashing are translation-validated, not proved."),
 "C07": dict(
    category="proof", design_ref="DESIGN.md §3.7",
    technique="Lean 4 theorems on the scalar wrappers (64-byte add/sub with the constant L, then reduce = arithmetic mod L), return-code logic, expand_message_xmd = RFC 9380 for contexts <= 255 bytes and the proved deviation above + differential correspondence against executable RFC 8032 / 9380 / 9496 specifications over naturals",
    text=("Scalar negate/complement/add/sub/invert, the valid-point and scalarmult return-code logic and the hash-to-field expander are modelled as written (reduce/mul/invert and point arithmetic as parameters); Lean proves the scalar "
          "identities mod L for the quantified inputs and the expander's equality with RFC 9380 for contexts up to 255 bytes. Point arithmetic, the sc25519 limb code and the Elligator/Ristretto maps are translation-validated on every "
          "structured encoding named in the property. Two genuine deviations are recorded as known findings (not repairable without editing the existing tests): the weak main-subgroup test and the oversize-context expander."),
    note=NOTE_COMMON + "known findings C07-main-subgroup and C07-oversize-dst are reported as KNOWN-FINDING on every run (known_findings.json)."),
 "C13": dict(
    category="proof", design_ref="DESIGN.md §3.13",
    technique="Lean 4 theorems over a flat-memory model of the pointer-distance test, memmove and block0 staging (result region = value-level result for every length and placement) + differential correspondence with buffers laid out at every offset -80..+80 on every backend",
    text=("crypto_secretbox_detached / open_detached / easy / open_easy, crypto_sign and crypto_sign_open are modelled at pointer level over a flat memory (uintptr distance test, memmove, in-place stream XOR) and proved, for every "
          "length and every placement of the regions, to produce the result of the value-level (disjoint-buffer) model. The tie lays input and output out in one arena at every relative offset in [-80, +80] for message lengths "
          "0..1200 (secretbox and box in both cipher variants, sign, sign_open) and runs every stream XOR and AEAD encrypt/decrypt form with identical pointers, on the AVX2 / SSSE3 / reference backends; the expected answer is the "
          "disjoint-buffer answer."),
    note=NOTE_COMMON + "vector backends operating in place are covered by the correspondence only (no model of the SIMD kernels)."),
 "C11": dict(
    category="proof", design_ref="DESIGN.md §3.11",
    technique="Lean 4 non-interference theorems over leakage-instrumented models (trace of branch decisions and memory indices) of the comparison / big-number helpers, unpad, the encoders, cswap / cmov, the table-scan selection, the X25519 ladder skeleton and the fixed-window recoding; tied to the code by functional equality with the C14/C15/C16 models and by a memcheck taint run of the compiled library with every secret operand marked undefined",
    text=("PARTIAL BY NATURE. Lean proves, for all secret values of equal public lengths, that the leakage trace (every branch decision and every memory index, in program order) of the modelled mechanisms is identical, "
          "with negative controls (an early-exit compare and a direct table lookup provably leak). The compiled code is tied to this by running every listed operation under valgrind/memcheck with its secret operands "
          "tainted (one execution covers all secret values along its path): any conditional jump or address computed from a secret is a violation with the op line as replay; branches on explicitly public results "
          "(verification status, identity-result errors, scalarmult status) are allowed only in the named wrapper frames. Block functions, field arithmetic and hardware-AES code have no Lean leakage model: for them the taint run alone decides."),
    note=NOTE_COMMON + "memcheck cannot run AVX-512 (masked); software-AES AEGIS fallback is outside the property's list and skipped; timing of individual instructions is out of scope."),
 "C12": dict(
    category="proof", design_ref="DESIGN.md §3.12",
    technique="Lean 4 theorems (buffer-index invariants of the SHA-2 / BLAKE2b / Poly1305 / HMAC streaming states for every chunk sequence, capacity and in-bounds theorems of codecs and padding, the table of documented size limits with refusal theorems tied to the models) + correspondence: in-C sweeps of every API family with exact-size buffers at every alignment offset / against guard pages, under ASan+UBSan and plain builds on every backend, digests compared across builds; limit probes answered by the Lean limits table",
    text=("PARTIAL BY NATURE. Proved for every sequence of update chunks: the pending-byte index of the SHA-256/512, BLAKE2b, Poly1305 and HMAC states stays inside its array; codecs never write past the capacity and need exactly the documented output size; "
          "pad / unpad touch only in-bounds indices; the IETF counter guard, generichash / KDF / HKDF range checks and 97 documented size limits refuse exactly the out-of-range arguments. The code is tied to this by sweeping every public API family "
          "(13 families) inside C over lengths past every internal block size, with every input and output buffer of exact documented size placed at alignment offsets 0..63 (ASan-poisoned prefix / canaries), ending at or starting after a PROT_NONE page, "
          "NULL at length 0, with mostly-valid and mutated contents, on native / portable builds and the whole CPU-feature mask chain, plain and ASan+UBSan; any sanitizer report, fault, canary corruption or digest difference is bisected to a single length. "
          "Limit probes (at and just beyond every *_MAX / *_MIN) run in a forked child and are compared with the Lean table. Functions without a Lean model (SIMD kernels, field arithmetic) are covered by the sweep only."),
    note=NOTE_COMMON + "UBSan alignment and nonnull-attribute checks are disabled (they fire on the unchanged tree: type-punned SIMD loads, explicit_bzero(NULL,0)); hand-written assembly is covered by the guard-page placements only; addresses formed from an out-of-limit length before the guard refuses the call (UBSan pointer-overflow) are counted in the evidence, not reported."),
 "C19": dict(
    category="proof", design_ref="DESIGN.md §3.19",
    technique="Lean 4 theorems over a labelled-transition-system model of the sodium_init lock protocol (inductive invariant over every schedule of every number of threads: init_once, init_safety, no_deadlock, init_completes) + correspondence: N-thread barrier races of the real sodium_init and a mixed workload compared with the model and the sequential run; ThreadSanitizer happens-before runs and a classified table of writable globals for the race-freedom half",
    text=("PARTIAL BY NATURE. Proved in Lean for every number of threads and every interleaving: the initialisation body runs exactly once, exactly one call returns 0 and all others 1, no call returns before the body's writes are "
          "complete and published under the mutex, and the protocol cannot deadlock. The model is tied to the code by racing 2..16 real threads through sodium_init behind a barrier (seeded spins / yields) and comparing the multiset of "
          "returns and post-return initialisation probes with the model run on a pseudo-random schedule, then running the same mixed workload (all stateless op families, default and internal random generator, guarded allocation, "
          "key generators) in every thread and comparing every output with the sequential run and the model. Data-race freedom after initialisation is not a theorem: it is decided by ThreadSanitizer on that workload "
          "(system and internal generator, all CPU features and none) and by checking the built library's writable static objects against a classified table (a new writable global is reported)."),
    note=NOTE_COMMON + "pthread mutex correctness assumed; hand-written assembly is not instrumented by TSan; one genuine race (global.pid in randombytes_internal) was found and repaired (known_findings.json)."),
}

# layers added after the per-property texts above were written (appended to text / technique)
ADDED = {
 "C10": ("; the code paths of the build without 128-bit integers / native-endian loads modelled and proved: radix-2^25.5 field arithmetic (re-transcribed from the source every run), poly1305_donna32, byte-shift load / store fallbacks",
         " For the build without 128-bit integers the 25.5-bit field code (no signed overflow under the proved bounds; = GF(2^255-19); X25519 over it = RFC 7748 = X25519 over the 51-bit code) and poly1305_donna32 (for 32- and 64-bit unsigned long; = spec = donna64) are modelled and proved, and the byte-shift load / store fallbacks of common.h are proved equal to the memcpy forms, so the existing C-structured models speak for the portable build as well."),
 "C01": ("; portable AEGIS-128L/256 code (generic *_common.h + table-based software AES round) modelled statement by statement and proved equal to the AEGIS specification for every length (Properties/C01Aegis.lean)",
         " The portable AEGIS code is modelled in the C's structure (state update, absorb / enc / dec / declast loops, mac, wrappers, the strided constant-time T-table AES round) and proved equal to Spec AEGIS for every key, nonce, AD and message length, with the round trip; the driver runs AEGIS through this model; the AES-NI instantiation of the same generic code (AESENC defined through the FIPS 197 round and validated against the CPU on every run) is proved equal to the specification and to the portable build (C01AegisAesni). AES-256-GCM (the AES-NI / PCLMULQDQ code, the only implementation of that API) is modelled function by function and proved equal to SP 800-38D end to end: FIPS 197 key schedule and cipher, counter blocks incl. the byte carries inside and between the 7-block batches, carry-less multiplication + reduction = GF(2^128) multiplication, aggregated GHASH with precomputed powers = sequential GHASH, the pipelined encrypt / decrypt loops and tails, wrappers and limits (Properties/C01Gcm, 32 theorems over 472 lemmas; intrinsic semantics validated against the CPU on every run)."),
 "C02": ("; AEGIS decrypt verdict / failure-output theorems over the C-structured model",
         " For AEGIS the decision logic is proved over the C-structured model: rc = 0 iff the specification accepts, on failure the output is zeroed or untouched, inputs shorter than the tag rejected."),
 "C03": ("; reference cores and the VECTORISED ChaCha20 code (dolbeau u0/u1/u4/u8 over a transcribed SSE/AVX2 intrinsic semantics) proved equal to the reference model, hence to RFC 8439, for every key, nonce, 64-bit counter and length",
         " The reference block functions (chacha20_ref, crypto_core_salsa*, HSalsa20 / HChaCha20) and the AVX2 / SSSE3 vector code (counter lanes with carries, quarter rounds through shuffle_epi8, transpositions, tails, all four entry points) are modelled statement by statement and proved equal to the specification keystream; the intrinsic semantics they rest on are re-validated against this CPU on every run, the source files are pinned."),
 "C04": ("; reference compression functions, Poly1305 donna64 limb arithmetic and the SIMD BLAKE2b compression functions (AVX2 / SSSE3 / SSE4.1, 144 message-load macros regenerated from the headers on every run) proved equal to the specification",
         " SHA-256/512 transform, blake2b_compress_ref, SipHash, poly1305_donna64 and the three vectorised BLAKE2b compression functions are modelled in the C's structure and proved equal to the specification for every input (Properties/C04Compress, C04Poly, C04Simd); the message-load macros are generated from the headers and the proofs re-checked when they change. poly1305_sse2.c — the Poly1305 this host selects (two parallel 26-bit-limb lanes, r^2 / r^4 multipliers, 32-byte buffering, shift-flag final block, lane combination) — is modelled in C statement order and proved equal to the specification MAC for every key, message, chunking and prior content of the partly initialised state (Properties/C04PolySse2, 32 theorems)."),
 "C06": ("; the ge25519 group-operation code (point formulas, window recoding, constant-time lookups, the three scalar multiplications, base tables regenerated from the source) modelled and proved over an explicit curve-group hypothesis",
         " The ge25519 code is inside the model: every addition / doubling formula is proved (as a polynomial identity) to compute the RFC 8032 formulas on the represented points, the signed-window and sliding-window recodings are proved as integer identities, the table lookups exact, the three scalar multiplications return n*P / n*B / a*A + b*B over any group the formulas implement, the 264 precomputed base-table entries are kernel-checked against the specification base point; that the RFC formulas form a group on the curve is an explicit hypothesis (a fact about edwards25519, not about libsodium)."),
 "C07": ("; sc25519 limb code re-transcribed from the source every run and proved exact; ge25519 group-operation code as for C06",
         " The scalar limb code (reduce / mul / muladd / invert) is regenerated from the source on every run and proved exact; the ge25519 point code is modelled and proved as described under C06 (two deviations outside the callers' contract stated as theorems: top window digit out of range for scalars >= 2^255, slide_vartime carry loss above 2^255). The Ristretto255 and Elligator 2 field-level code (sqrt_ratio_m1, frombytes / p3_tobytes, elligator, from_hash, mont_to_ed, from_uniform, the wrappers) is modelled in the C's statement order and proved equal, coordinate-wise and for all inputs, to RFC 9496 / RFC 9380 (Properties/C07Maps.lean, with a Pratt certificate for the primality of 2^255-19)."),
 "C08": ("; the reference Argon2 core proved equal to RFC 9106 end to end (any lane count), the reference scrypt components (Salsa20/8, BlockMix, Integerify, ROMix loops, PBKDF2) proved equal to RFC 7914 / 8018",
         " The driver now runs the C-structured models of the reference cores (Properties/C08Core: fBlaMka .. fill_block .. index_alpha with exact bounds .. fill_segment .. finalize = RFC 9106 for every in-range input; Properties/C08Scrypt for the scrypt components); the AVX2 / SSSE3 / AVX-512F Argon2 block-filling code is modelled macro by macro over a transcribed intrinsic semantics (validated against the CPU on every run) and proved equal to the reference code, hence to RFC 9106, up to crypto_pwhash (Properties/C08Simd, 49 theorems); the SSE2 scrypt code is compared with the reference model per backend."),
 "C11": ("; MiniC deep embedding + kernel-checked constant-time type checker with a soundness theorem for all programs and inputs; 24 leaf functions re-translated from the clang AST of the current source on every run",
         " Tie B: tools/c2minic.py translates the current source of 24 constant-time leaf functions (comparison / big-number / padding helpers, hex and Base64 encoders and character maps, crypto_verify, canonicity loops, fe25519 cmov / cswap, lookup helpers) into a deep embedding; `ctCheck` (every branch condition, array index, division operand and variable shift amount must be Public) is decided by the kernel for each, and `MiniC.soundness` (proved once, for every program, input and fuel) turns that into non-interference of the branch / address trace of the code as it is now. A rejected function is searched for a concrete pair of inputs with different traces under the MiniC semantics."),
}

# session 6
ADDED6 = {
 "C03": ("; the xmm6int Salsa20 SSE2 / AVX2 code (u0/u1/u4/u8, diagonal state layout) modelled and proved = reference = specification keystream",
         " The vectorised Salsa20 code (salsa20_xmm6int-sse2.c / -avx2.c with u0 / u1 / u4 / u8.h: diagonal state layout, 64-bit counter lanes with carry inside and between batches, in-place bodies, tails) is modelled from the header text and proved equal to the reference model and the Salsa20 / XSalsa20 specification for every key, nonce, counter and length (Properties/C03SalsaSimd, 41 theorems); the driver cross-runs it on every Salsa20 op; the six files are pinned. The xmm6 ASSEMBLY backend is translated from the current .S text into an instruction array for an x86-64 + SSE2 interpreter (Model/X86Sse.lean) on every run and cross-run by the driver on every Salsa20 / XSalsa20 op up to 1100 bytes; when the text changes the driver is rebuilt against the regenerated array and a directed op set (counters around 2^32 and 2^64, every path and tail) searched for a failing input; proved so far (Properties/C03Asm2): the prologue, for every memory content, counter and length, leaves the diagonal-layout state with both counter words correct (this theorem fails to re-check on seeded C03-6), and the 20-round loop equals the specification's double rounds; the block output (feed-forward, XOR with the message, stores, in place included) and the 64-bit counter increment with its carry are proved as separate steps (C03Asm3); their composition into one theorem, the 4-block path and tails rest on the cross-run."),
 "C06": ("; statement-order model of seed_keypair / detached sign (incl. Ed25519ph) / verify_detached assembled from the proved pieces: verifier returns 0 iff the strict conditions hold, decoding / encoding = RFC 8032 (two lax-decoding deviations kernel-checked), sign = RFC 8032 and sign-then-verify = 0 under CurveGroup + Faithful",
         " Ed25519 end to end (Properties/C06Full, C06Full2, C06Full3; 38 theorems): the statement-order models of keypair.c / sign.c / open.c are assembled from the proved SHA-512, sc25519 and ge25519 models and run by the driver; `verify_returns_zero_iff` (S canonical, A canonical / decodable / not small order, R decodable / not small order, the code's final small-order test); ge25519_frombytes (both forms) = lax RFC 8032 decoding with the root selection proved equal to the RFC's, p3_tobytes / tobytes = encoding, decode of encode = id; key generation and signing equal Spec.Ed25519 byte for byte and every honest signature verifies, under the explicit hypotheses CurveGroup + Faithful + [L]B = 0 (facts about edwards25519) and the side condition that R and A pass the small-order tests; the verifier's final comparison is characterised exactly (4*Delta = 0 up to a spoiled-denominator disjunct), neither the cofactorless nor the 8-cofactored equation. The function bodies are pinned."),
 "C08": ("; the SSE2 scrypt core and both escrypt_kdf functions proved = RFC 7914 end to end",
         " scrypt is now proved end to end: the SSE2 Salsa20/8 core on its shuffled word layout, blockmix / blockmix_xor / integerify, both smix functions on bytes, escrypt_kdf_sse = escrypt_kdf_nosse = RFC 7914 scrypt for every argument with every error return stated (kdfSpec), and crypto_pwhash_scryptsalsa208sha256 = scrypt with pickparams' (N, r, p) (Properties/C08ScryptSse, 35 theorems); new intrinsics validated against the CPU; the driver cross-runs the SSE-structured core; files pinned."),
 "C11": ("; translator widened to 68 targets / 100 non-interference corollaries (field arithmetic in both limb widths, X25519 ladder, sc25519, ge25519 lookups and scalar multiplications, Salsa / HChaCha cores, Poly1305, SHA-2, BLAKE2b, SipHash)",
         " Session 6 widened the translator from 24 to 68 targets (100 corollaries over native / noasm / portable configurations): fe25519 arithmetic in the 51-bit and 25.5-bit representations incl. invert / pow22523 / frombytes / tobytes, the ref10 X25519 ladder (secret scalar, public point), sc25519 reduce / mul / muladd / invert, ge25519 cmov8 lookups and both scalar multiplications, crypto_core_salsa / hsalsa20 / hchacha20, poly1305 blocks / finish / update (donna64 and donna32), SHA-256 / SHA-512 transform, update, pad and final, blake2b compress_ref / update / final, SipHash-2-4. Aliased and sub-array arguments are handled by cloning (exact w.r.t. C, with a control showing by-copy passing would differ); for large programs the label context is inferred outside the kernel and CHECKED inside it against a supplied-context checker whose soundness (`soundness_ctx`) is proved. chacha20_encrypt_bytes is refused (its public counter shares an array with the key)."),
 "C18": ("; randombytes_internal_random.c and the dispatch layer of randombytes.c modelled in the C's structure, the REAL internal generator run deterministically against it",
         " The default-grade generators are inside the model (Model/RandomInternal, Properties/C18Internal, 29 theorems, for every history of calls): pool bookkeeping invariant (every word handed out once and zeroed, indices in bounds), buf = ChaCha20 keystream under the current key followed by the key-erasure step stated exactly, stir requests exactly 32 seed bytes (16 + 32 the first time), close resets, the dispatch layer forwards sizes exactly and uses the proved rejection loop unless the source supplies its own uniform. The correspondence wraps getentropy / gettimeofday / getpid / open so the real internal generator runs on a scripted outside world (447 histories per configuration). Deviations of the code recorded as theorems (outside the property): with HAVE_GETENTROPY a run-time getentropy failure leaves the key unseeded when the device opens; a fork is misuse, not a re-stir; random() with words left in the pool never checks the pid."),
 "C17": ("; byte-and-page-level model of the guarded allocator (contents, protections, faulting accesses) with theorems for every size, canary value and protection history",
         " Properties/C17Mem (9 theorems over Model/AllocMem.lean: a state of page protections, byte contents, page size, canary and a system-call log, every load / store faulting when the protection forbids it): after sodium_malloc every user byte is 0xdb in read-write pages, p + size is the first byte of a no-access page, the 16 bytes before p are the canary, the call log is the five system calls of the code; any access in either guard page faults; each protection call re-protects exactly the unprotected range and, by induction over any history, contents and canary are preserved and the guard pages stay inaccessible; sodium_free aborts for EVERY altered canary value (through the exactness of sodium_memcmp proved under C14) and otherwise zeroes the region and unmaps exactly the mapping, from any protection state. This model is not yet routed through the driver: it shares the layout lemmas with the tied Model/Alloc.lean, whose layouts and call logs the correspondence compares; the fork probes (now also under SIGSEGV ignored / handled by a returning handler) validate the faulting and termination behaviour."),
 "C19": ("; Tie B: table of static objects / accesses / lock contexts / call graph regenerated from the clang AST on every run, race-freedom theorem over it; shared-const-input rounds in the threaded harness",
         " Race freedom after initialisation is now a theorem over a table REGENERATED from the source (tools/c2lean_globals.py: 41 objects, 339 functions kept of 37,543, 228 API roots; cross-checked against objdump -t of the built library, which also covers the assembly files): `race_free_after_init` (for any table and policy: the decidable check implies that in every interleaving of any number of threads running any post-init API calls, two conflicting accesses to the same object are lock-protected, thread-local or allow-listed), `table_race_free` (kernel-decided instance), `init_then_race_free` (link to the init protocol), and necessity theorems for each named exception (sodium_misuse, randombytes_set_implementation, randombytes_close, the first-use state of the two generators). Caller-owned memory is not in the table: the threaded harness now also runs 24 rounds per race in which all threads use the SAME const inputs (keys, a precomputed AES-GCM state on first use, messages) against single-threaded references, also under TSan."),
 "C20": ("; Tie B: allocation skeletons of 28 entry points regenerated from the clang AST on every run, fail-closed decided by the kernel for each and lifted to every oracle",
         " Tie B (tools/c2lean_alloc.py -> Generated/AllocProgs.lean): the allocation skeleton (every malloc / calloc / mmap / free / munmap, the tests of their results, assignments to struct fields, early returns with their value class, every other condition abstracted as a named boolean input) of 28 entry points of argon2.c, argon2-core.c, pwhash_argon2i(d).c, the scrypt files and utils.c is regenerated on every run as a term of a small deep-embedded language; `goodAll` explores both answers at every request and every abstracted condition and is decided by the kernel for each entry; `fail_closed_of_goodAll` lifts it to every oracle Nat -> Bool and every valuation; the generated programs are proved observationally equal to the hand-written ones of Model/Fault.lean (Properties/C20Gen, 45 theorems). On a failing obligation the tool prints the fault schedule (oracle prefix, named inputs, event trace) as the replay."),
 "C05": ("; sandy2x scalar assembly (fe51_pack / fe51_mul / fe51_nsquare) translated from the .S text into an x86-64 interpreter model on every run, driver cross-runs it; constructed boundary outputs",
         " The scalar assembly files of the sandy2x backend are inside the model through a translator: tools/asm2lean.py turns the current .S text into instruction lists for the x86-64 interpreter of Model/X86Scalar.lean (registers, flags with definedness tracking, byte memory; refuses unknown mnemonics), regenerated on every run; the driver runs every X25519 op's final limb vector through the generated fe51_pack / fe51_mul / fe51_nsquare and compares with the limb model; of fe51_pack the reduce loop (three passes, no 64-bit wrap, limbs below 2^51, value preserved mod 2^255-19), the freeze (conditional subtraction of p) and the 137 byte stores with every stored byte's value are proved for all inputs (Properties/C05Asm, C05Asm2) — and from the post-prologue state to the pre-epilogue state the 32 bytes at rdi are proved to be toLE 32 (value mod p) = fe25519_tobytes of the limb model with nothing else written (C05Asm3); the 14-instruction prologue / 3-instruction epilogue memory frame, fe51_mul and fe51_nsquare are NOT proved and rest on the cross-run; ladder.S (AVX) is not modelled. The generator constructs 1359 (scalar, point) pairs whose shared secret is a small integer / at the reduction and limb-packing boundaries, on curve and twist."),
 "C13": ("; memory-level statement-order models of every AEAD's in-place loops proved = disjoint = functional model",
         " Properties/C13Aead, C13Aead2 (51 theorems): the ChaCha20-Poly1305 family (original, IETF, XChaCha; any chunking of the stream XOR; the order MAC-over-ciphertext / XOR as written), the AEGIS-128L / 256 block loops and the AES-256-GCM loop shapes (2x7 pipeline, 7 / 4 / 2 / 1-block loops, tail) are modelled as loads and stores on the flat memory in the order of the C statements and proved, for identical (or output-before-input / disjoint) pointers, to store exactly the functional model's output and reach its verdict, with the failure path zeroing the output; for AES-256-GCM the load-before-overwriting-store schedule check is proved for EVERY length by one generic loop lemma over the stage decomposition (C13Aead2; the kernel-evaluated statement below 1024 is kept as a regression example), and the whole detached functions (AD, tag, limits path, 0xd0 fill) are modelled at memory level over abstract primitives, instantiated with the SP 800-38D primitives for encryption (`gcm_encrypt_detached_is_sp800_38d`, C13Aead3; the composed decrypt statement is not finished); partial-overlap counterexamples mark the boundary of the guarantee. The driver recomputes every identical-pointer AEAD op at memory level."),
 "C10": ("; C10 inherits the pins and cross-backend theorems of the AEGIS / softaes models; long-operand implementation-vs-implementation ops",
         " C10 now fails when the pinned AEGIS / softaes / AES-GCM sources change (its cross-backend claim for them rests on the proved models: aesni_eq_soft etc., 24 theorems added to its audit), and compares backends on operands of 2^20 bytes (quick) and 2^29 .. 2^29+33 bytes (thorough) built inside the harness."),
 "C01": ("; box (easy = detached = afternm) and sealed boxes in both cipher variants compared with the specification under a scripted ephemeral key",
         " The box and sealed-box families named in the statement are now in the op set: box.easy for both cipher variants (with the harness requiring easy = detached = afternm), sealed boxes produced under a scripted random source compared with epk || box(m, BLAKE2b-192(epk || pk), pk, esk) and the model's sealed boxes opened by the implementation."),
}

NOT_YET = {}

ALL = ["C%02d" % i for i in range(1, 21)]


def main():
    reasons = json.load(open(os.path.join(V, "tools", "not_applicable.json"))) if os.path.exists(os.path.join(V, "tools", "not_applicable.json")) else {}
    checks = []
    sys.path.insert(0, os.path.join(V, "tools"))
    import importlib
    for pid in ALL:
        if pid not in CHECKS:
            continue
        c = dict(CHECKS[pid])
        mod = importlib.import_module("props." + pid.lower())
        if c["category"] == "proof" and not getattr(mod, "THEOREMS", []):
            c["category"] = "exploration"     # theorems for this property are not merged yet: claim only what the evidence file will show
            c["text"] = "(Lean theorems for this property are still being proved; until they are merged this check claims exploration only.) " + c["text"]
        if pid in ADDED:
            c["technique"] = c["technique"] + ADDED[pid][0]
            c["text"] = c["text"] + ADDED[pid][1]
        if pid in ADDED6:
            c["technique"] = c["technique"] + ADDED6[pid][0]
            c["text"] = c["text"] + ADDED6[pid][1]
        checks.append({
            "property_id": pid,
            "quick_cmd": "python3 tools/check.py %s --tier quick" % pid,
            "thorough_cmd": "python3 tools/check.py %s --tier thorough" % pid,
            "evidence_file": "evidence/%s.json" % pid,
            "replay_cmd_template": "python3 tools/check.py %s --replay {path}" % pid,
            "engine": "lean-model+correspondence",
            "level_claimed": {"category": c["category"], "text": c["text"], "design_ref": c["design_ref"]},
            "level_note": c["note"],
            "technique": c["technique"],
        })
    na = [{"property_id": pid, "reason": reasons.get(pid, "check not built yet in this round; design in DESIGN.md (no claim made)")}
          for pid in ALL if pid not in CHECKS]
    hooks_commits = subprocess.run(["git", "-C", "/repo", "log", "--format=%H %s", "--grep=verif hook"], capture_output=True, text=True).stdout.strip().split("\n")
    m = {
        "version": 1,
        "setup_cmd": "python3 tools/check.py --setup",
        "hooks": {
            "guard": "SODIUM_VERIF",
            "enable": "harness/build_sodium.py compiles /repo/src/libsodium from the working tree with -DSODIUM_VERIF=1 into a scratch directory (never the in-tree build)",
            "baseline_off_cmd": "make -C /repo -j16 check",
            "source_commits": [h.split(" ")[0] for h in hooks_commits if h],
            "add_only": True,
        },
        "engines": [{"name": "lean-model+correspondence", "path": "lean/ tools/ harness/",
                     "serves_properties": [c["property_id"] for c in checks],
                     "kind_free_text": "Lean 4 model + theorems (lake project lean/), compiled model driver, C harness calling libsodium in-process, Python runner diffing both"}],
        "checks": checks,
        "not_applicable": na,
        "notes": "See DESIGN.md. Exit codes: 0 held, 1 VIOLATION, 2 BROKEN-CHECK (machinery problem, not a verdict).",
    }
    json.dump(m, open(os.path.join(V, "MANIFEST.json"), "w"), indent=1)
    try:
        import jsonschema
        jsonschema.validate(m, json.load(open("/root/.vp/MANIFEST.schema.json")))
        print("MANIFEST.json valid; %d checks, %d not claimed" % (len(checks), len(na)))
    except ImportError:
        print("jsonschema not available; written without validation")


if __name__ == "__main__":
    main()
